#!/usr/bin/env python3
"""collect confirmed seeded changes of one round into /verif/seeded/<PREFIX>-<dir>-mN/
usage: collect_round.py <PREFIX e.g. R3> <source root e.g. /tmp/mut3> <lane log>...
Lane logs are those written by bin/mt_batch.sh (names <PREFIX><dir>mN, e.g. R3C01m1 or R4Am2)."""
import json, os, re, shutil, sys
OUT = "/verif/seeded"
prefix, root, logs = sys.argv[1], sys.argv[2], sys.argv[3:]
res, conf = {}, {}
pat = re.escape(prefix) + r"(\w+?)(m\d)"
for lg in logs:
    cur = None
    for line in open(lg, errors="replace"):
        m = re.match(r"== (" + pat + ")", line)
        if m:
            cur = m.group(1)
        if line.startswith("RESULT") and cur:
            conf[cur] = conf.get(cur, False) or ("66 passed" in line and "demo_with_exit=101 demo_without_exit=0" in line)
        m = re.match(r"MT (" + pat + r") check=(\w+) exit=(\d+) (\d+) violation-lines;\s*(.*)", line)
        if m:
            res.setdefault(m.group(1), []).append((m.group(4), int(m.group(5)), m.group(7).strip()[:160], os.path.basename(lg)))
for name in sorted(conf):
    m = re.match(pat, name)
    d0, mm = m.group(1), m.group(2)
    if not conf[name]:
        print("not confirmed:", name)
        continue
    src = os.path.join(root, d0, "out")
    meta = json.load(open(os.path.join(src, mm + ".meta.json")))
    d = os.path.join(OUT, "%s-%s-%s" % (prefix, d0, mm))
    os.makedirs(d, exist_ok=True)
    patch = os.path.join(src, mm + ".applied.diff")
    if not os.path.exists(patch):
        patch = os.path.join(src, mm + ".patch.diff")
    shutil.copy(patch, os.path.join(d, "patch.diff"))
    shutil.copy(os.path.join(src, mm + ".demo.rs"), os.path.join(d, "demo.rs"))
    runs = res.get(name, [])
    last = {}
    for chk, rc, what, lg in runs:          # the latest run per check counts (checks were strengthened between runs)
        last[chk] = (rc, what, lg)
    meta["confirmed"] = ("bin/confirm_mutant.sh: patch applies, cargo test --offline --lib = 66 passed with it, demo (tests/demo.rs) "
                         "fails with it and passes without it")
    meta["ran"] = ["bin/mt_run.sh %s patch.diff %s -> exit %d; %s (%s)" % (name, chk, rc, what, lg) for chk, rc, what, lg in runs]
    meta["detected_by"] = sorted(c for c, (rc, _, _) in last.items() if rc == 1)
    meta["quiet"] = sorted(c for c, (rc, _, _) in last.items() if rc == 0)
    meta["tool_error"] = sorted(c for c, (rc, _, _) in last.items() if rc not in (0, 1))
    json.dump(meta, open(os.path.join(d, "meta.json"), "w"), indent=1)
    print(name, "property", meta.get("property"), "detected_by", meta["detected_by"], "quiet", meta["quiet"], "err", meta["tool_error"])
