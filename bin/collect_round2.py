#!/usr/bin/env python3
"""collect confirmed round-2 seeded changes from /tmp/mutout2 and the lane logs into /verif/seeded/R2-<id>-mN/"""
import json, os, re, shutil, glob
OUT = "/verif/seeded"
logs = sorted(glob.glob("/tmp/mt/mt5.log") + glob.glob("/tmp/mt/mt6.log") + glob.glob("/tmp/mt2/mt*.log"),
              key=lambda p: int(re.search(r"mt(\d+)\.log", p).group(1)))
res = {}
conf = {}
for lg in logs:
    cur = None
    for line in open(lg, errors="replace"):
        m = re.match(r"== (R2C\d\dm\d)", line)
        if m:
            cur = m.group(1)
        if line.startswith("RESULT") and cur:
            conf[cur] = "66 passed" in line and "demo_with_exit=101 demo_without_exit=0" in line
        m = re.match(r"MT (R2C\d\dm\d) check=(\w+) exit=(\d+) (\d+) violation-lines;\s*(.*)", line)
        if m:
            res.setdefault(m.group(1), []).append((m.group(2), int(m.group(3)), m.group(5).strip()[:160], os.path.basename(lg)))
for name in sorted(conf):
    if not conf[name]:
        print("not confirmed:", name)
        continue
    pid, m = name[2:5], name[5:]
    src = "/tmp/mutout2/%s" % pid
    d = os.path.join(OUT, "R2-%s-%s" % (pid, m))
    os.makedirs(d, exist_ok=True)
    patch = os.path.join(src, m + ".applied.diff")
    if not os.path.exists(patch):
        patch = os.path.join(src, m + ".patch.diff")
    shutil.copy(patch, os.path.join(d, "patch.diff"))
    shutil.copy(os.path.join(src, m + ".demo.rs"), os.path.join(d, "demo.rs"))
    meta = json.load(open(os.path.join(src, m + ".meta.json")))
    runs = res.get(name, [])
    # the latest run per check counts (checks were strengthened between runs)
    last = {}
    for chk, rc, what, lg in runs:
        last[chk] = (rc, what, lg)
    meta["confirmed"] = "bin/confirm_mutant.sh: patch applies, cargo test --offline --lib = 66 passed with it, demo (tests/demo.rs) fails with it and passes without it"
    meta["ran"] = ["bin/mt_run.sh %s patch.diff %s -> exit %d; %s (%s)" % (name, chk, rc, what, lg) for chk, rc, what, lg in runs]
    meta["detected_by"] = sorted(c for c, (rc, _, _) in last.items() if rc == 1)
    meta["quiet"] = sorted(c for c, (rc, _, _) in last.items() if rc == 0)
    json.dump(meta, open(os.path.join(d, "meta.json"), "w"), indent=1)
    print(name, "detected_by", meta["detected_by"], "quiet", meta["quiet"])
