#!/bin/bash
# usage: confirm_mutant.sh <scratch-repo> <patch.diff> <demo.rs>
MT=${MT:-/tmp/mt}; export MT
# confirms: patch applies, 66 unit tests pass with it, demo fails with it and passes without it.
R=$1; P=$2; D=$3
cd $R || exit 2
git reset -q --hard; git clean -qfd -e target
if ! git apply $P 2>/dev/null; then
  if ! git apply --3way $P >/dev/null 2>&1; then git reset -q --hard; echo "RESULT apply-failed"; exit 1; fi
fi
git diff HEAD > $MT/applied.diff
T=$(cargo test --offline --lib 2>&1 | grep "test result" | head -1)
mkdir -p tests; cp $D tests/demo.rs
cargo test --offline --test demo >$MT/demo_with.log 2>&1; W=$?
git reset -q --hard
mkdir -p tests; cp $D tests/demo.rs
cargo test --offline --test demo >$MT/demo_without.log 2>&1; WO=$?
rm -rf tests; git reset -q --hard
echo "RESULT unit=[$T] demo_with_exit=$W demo_without_exit=$WO"
if [ $WO -ne 0 ]; then grep -E "^error|panicked|FAILED|failed" $MT/demo_without.log | head -5; fi
