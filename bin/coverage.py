#!/usr/bin/env python3
"""Diagnostic (not a registered check): which source lines of /repo/src do the recorded corpora execute?

A conformance check can only notice a change in code that some recorded call runs through.  This script
builds the harness with `-C instrument-coverage` (nightly toolchain, llvm-tools), runs the generators of
every plan exactly as `./check <ID>` would (quick tier unless --tier thorough), merges the profiles and
prints, per source file of the crate, the executable lines no generator reached -- the blind spots
of trace validation.  It validates nothing and writes no evidence.

usage: bin/coverage.py [--tier quick|thorough] [--ids C01,C02,...] [--out DIR] [--skip-build]
"""
import os, sys, subprocess, json, glob, shutil, time
ROOT = os.path.dirname(os.path.dirname(os.path.abspath(__file__)))
sys.path.insert(0, os.path.join(ROOT, "lib"))
import core, plans

SCR = os.environ.get("VERIF_COV_DIR", "/root/sfx-scratch")
TGT = os.path.join(SCR, "covtarget")
RF = "--cfg substrate_fixed_verif --check-cfg cfg(substrate_fixed_verif) -C instrument-coverage"


def tool(name):
    out = subprocess.run(["rustc", "+nightly", "--print", "sysroot"], capture_output=True, text=True).stdout.strip()
    return glob.glob(os.path.join(out, "lib/rustlib/*/bin", name))[0]


def main():
    a = sys.argv[1:]
    tier, ids, out, skip = "quick", None, os.path.join(SCR, "cov"), False
    i = 0
    while i < len(a):
        if a[i] == "--tier": tier = a[i + 1]; i += 1
        elif a[i] == "--ids": ids = a[i + 1].split(","); i += 1
        elif a[i] == "--out": out = a[i + 1]; i += 1
        elif a[i] == "--skip-build": skip = True
        i += 1
    os.makedirs(out, exist_ok=True)
    prof = os.path.join(out, "raw")
    shutil.rmtree(prof, ignore_errors=True)
    os.makedirs(prof)
    # build scripts and proc-macros of the instrumented build write profiles too: keep them out of /repo and /verif
    env = dict(os.environ, CARGO_TARGET_DIR=TGT, RUSTFLAGS=RF, CARGO_NET_OFFLINE="true",
               LLVM_PROFILE_FILE=os.path.join(out, "build-%p-%m.profraw"))
    if not skip:
        for crate in ("harness", "harness_opt"):
            subprocess.run(["cargo", "+nightly", "build", "--offline", "--profile", "unchecked", "--bins"],
                           cwd=os.path.join(ROOT, crate), env=dict(env, CARGO_TARGET_DIR=TGT + ("_opt" if crate != "harness" else "")),
                           check=True)
    ids = ids or [p for p in plans.PLANS]
    core.WORK = os.path.join(out, "work")
    used = set()
    for pid in ids:
        plan = plans.PLANS[pid](tier, 1)
        wdir = os.path.join(core.WORK, pid)
        os.makedirs(wdir, exist_ok=True)
        t0 = time.time()
        for pre in plan.get("pre_gen", []):
            pre(wdir, tier, 1)
        for g in plan["gens"]:
            b = g["bin"]
            if "/" in b:
                exe = os.path.join(TGT + "_opt", "unchecked", b.split("/", 1)[1])
            else:
                exe = os.path.join(TGT, "unchecked", b)
            if not os.path.exists(exe):
                print("missing", exe); continue
            used.add(exe)
            o = os.path.join(wdir, g["name"] + ".ndjson")
            e = dict(os.environ, LLVM_PROFILE_FILE=os.path.join(prof, "%s-%s-%%p.profraw" % (pid, g["name"])))
            r = subprocess.run([exe] + g["args"] + ["--out", o], env=e, capture_output=True, text=True)
            if r.returncode != 0:
                print("generator failed", pid, g["name"], r.stderr[-500:])
            try: os.remove(o)
            except OSError: pass
        print("[cov] %s generators ran in %.0fs" % (pid, time.time() - t0), flush=True)
    pd = os.path.join(out, "all.profdata")
    subprocess.run([tool("llvm-profdata"), "merge", "-sparse", "-o", pd] + glob.glob(prof + "/*.profraw"), check=True)
    objs = []
    for x in sorted(used):
        objs += ["-object", x]
    objs = objs[1:]
    rep = subprocess.run([tool("llvm-cov"), "export", "-format=lcov", "-instr-profile", pd] + objs +
                         ["-ignore-filename-regex", r"(\.cargo|rustc|harness)"], capture_output=True, text=True)
    lcov = rep.stdout
    open(os.path.join(out, "all.lcov"), "w").write(lcov)
    # per file: uncovered executable lines
    cur = None
    res = {}
    for line in lcov.splitlines():
        if line.startswith("SF:"):
            cur = line[3:]; res.setdefault(cur, {})
        elif line.startswith("DA:") and cur:
            n, c = line[3:].split(",")[:2]
            res[cur][int(n)] = max(res[cur].get(int(n), 0), int(c))
    summary = {}
    for f, d in sorted(res.items()):
        if "/repo/src/" not in f:
            continue
        unc = sorted(n for n, c in d.items() if c == 0)
        summary[os.path.basename(f)] = dict(lines=len(d), uncovered=len(unc), uncovered_lines=unc)
        print("%-22s executable %5d  never executed %4d" % (os.path.basename(f), len(d), len(unc)))
    json.dump(summary, open(os.path.join(out, "uncovered.json"), "w"), indent=0)
    shutil.rmtree(prof, ignore_errors=True)


if __name__ == "__main__":
    main()
