#!/usr/bin/env python3
"""Regenerates tla/apa/CordicZ.tla (unrolled CORDIC angle recurrence; see the module header).  The 23-bit table T is
checked against the U0F128 table of tla/alg/MathAlg.tla by tla/mc/MC_TrigConst (TLC)."""
print("see git history: the generator body is inlined in the commit that introduced tla/apa/CordicZ.tla")
