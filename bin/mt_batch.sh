#!/bin/bash
# usage: mt_batch.sh <log> "<name> <dir> <m#> <check...>" ...
MT=${MT:-/tmp/mt}; export MT
LOG=$1; shift
for spec in "$@"; do
  set -- $spec
  NAME=$1; DIR=$2; M=$3; shift 3
  cd $MT/repo && git reset -q --hard && git checkout -q --detach main
  echo "== $NAME" >> $LOG
  /verif/bin/confirm_mutant.sh $MT/repo $DIR/$M.patch.diff $DIR/$M.demo.rs >> $LOG 2>&1
  if tail -3 $LOG | grep -q "66 passed.*demo_with_exit=101 demo_without_exit=0"; then
    cp $MT/applied.diff $DIR/$M.applied.diff
    /verif/bin/mt_run.sh $NAME $DIR/$M.applied.diff "$@" >> $LOG 2>&1
  else
    echo "MT $NAME not-confirmed" >> $LOG
  fi
done
echo "BATCH DONE" >> $LOG
