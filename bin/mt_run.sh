#!/bin/bash
# usage: mt_run.sh <name> <patch.diff> <check-id> [<check-id>...]
# runs checks of a scratch copy of /verif (/tmp/mt/verif) against the scratch repo /tmp/mt/repo with the patch applied
NAME=$1; P=$2; shift 2
rsync -a --delete --exclude work --exclude replays --exclude evidence --exclude .git /verif/ /tmp/mt/verif/ 
cd /tmp/mt/repo && git reset -q --hard && git checkout -q --detach main && git clean -qfd -e target && git apply $P || { echo "MT $NAME apply-failed"; exit 1; }
cd /tmp/mt/verif
for id in "$@"; do
  ./check $id > /tmp/mt/run_${NAME}_$id.log 2>&1; rc=$?
  echo "MT $NAME check=$id exit=$rc $(grep -c '^VIOLATION' /tmp/mt/run_${NAME}_$id.log) violation-lines; $(grep -A1 -m1 '^VIOLATION' /tmp/mt/run_${NAME}_$id.log | tail -1 | cut -c1-200)"
done
cd /tmp/mt/repo && git reset -q --hard
