#!/bin/bash
# usage: mt_run.sh <name> <patch.diff> <check-id> [<check-id>...]
MT=${MT:-/tmp/mt}; export MT
# runs checks of a scratch copy of /verif ($MT/verif) against the scratch repo $MT/repo with the patch applied
NAME=$1; P=$2; shift 2
# the lane tests /verif as COMMITTED (HEAD), so edits in progress do not leak into a running batch; build output is kept
mkdir -p $MT/verif && git -C /verif archive HEAD | tar -x -C $MT/verif
cd $MT/repo && git reset -q --hard && git checkout -q --detach main && git clean -qfd -e target && git apply $P || { echo "MT $NAME apply-failed"; exit 1; }
cd $MT/verif
for id in "$@"; do
  ./check $id > $MT/run_${NAME}_$id.log 2>&1; rc=$?
  echo "MT $NAME check=$id exit=$rc $(grep -c '^VIOLATION' $MT/run_${NAME}_$id.log) violation-lines; $(grep -A1 -m1 '^VIOLATION' $MT/run_${NAME}_$id.log | tail -1 | cut -c1-200)"
done
cd $MT/repo && git reset -q --hard
