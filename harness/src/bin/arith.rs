#![allow(deprecated, unused_imports)]
//! Arithmetic / rounding events (C01, C02, C06, C07, parts of C11).
//! Event:  {"k":"bin"|"bini"|"un","op":..,"pr":profile,"L":[s,w,f],"a":..,"b"|"n":..,
//!          "o":[plain,checked,saturating,wrapping,overflowing]}   (absent form = [9])
use sfv::sf::traits::{Fixed, FixedSigned};
use sfv::*;

include!("arith_events.rs");

fn main() {
    let o = opts();
    silence_panics();
    let mut c = Ctx {
        wr: Wr::new(o.big, o.out.as_deref()),
        ops: o.topic.split(',').map(|s| s.to_string()).collect(),
        tier: o.tier.clone(),
        seed: o.seed,
        pr: PROFILE,
        npairs: if o.n > 0 { o.n as usize } else { 200 },
        cap: 0,
        fixed: None,
    };
    let mut t: Vec<Entry<Ctx>> = vec![];
    let mut ts: Vec<Entry<Ctx>> = vec![];
    t.extend(for_w8!(lay_table!(Ctx; run;)));
    ts.extend(for_w8s!(lay_table!(Ctx; run_s;)));
    t.extend(for_w16!(lay_table!(Ctx; run;)));
    ts.extend(for_w16s!(lay_table!(Ctx; run_s;)));
    t.extend(for_w32!(lay_table!(Ctx; run;)));
    ts.extend(for_w32s!(lay_table!(Ctx; run_s;)));
    t.extend(for_w64!(lay_table!(Ctx; run;)));
    ts.extend(for_w64s!(lay_table!(Ctx; run_s;)));
    t.extend(for_w128!(lay_table!(Ctx; run;)));
    ts.extend(for_w128s!(lay_table!(Ctx; run_s;)));
    let mut tb: Vec<Entry<Ctx>> = vec![];
    tb.extend(for_w8!(lay_table!(Ctx; run_bits;)));
    tb.extend(for_w16!(lay_table!(Ctx; run_bits;)));
    tb.extend(for_w32!(lay_table!(Ctx; run_bits;)));
    tb.extend(for_w64!(lay_table!(Ctx; run_bits;)));
    tb.extend(for_w128!(lay_table!(Ctx; run_bits;)));
    if let Some(path) = &o.replay {
        replay_events(&mut c, path, &[&t, &ts, &tb], &o.widths);
        c.wr.flush();
        return;
    }
    for e in t.iter().chain(ts.iter()).chain(tb.iter()) {
        if o.widths.is_empty() || o.widths.contains(&e.lay.w) {
            (e.run)(&mut c);
        }
    }
    c.wr.flush();
}
