// shared by the arith and sweep bins (include!)
struct Ctx {
    wr: Wr,
    ops: Vec<String>,
    tier: String,
    seed: u64,
    pr: u8,
    npairs: usize,
    /// sweep bin: at most this many operand pairs / values per (layout, operation); 0 = no cap
    cap: usize,
}

fn capped<T>(mut v: Vec<T>, cap: usize, seed: u64) -> Vec<T> {
    if cap == 0 || v.len() <= cap { return v; }
    let mut rng = Rng::new(seed ^ 0xCA9);
    for i in 0..cap { let j = i + rng.below((v.len() - i) as u64) as usize; v.swap(i, j); }
    v.truncate(cap);
    v
}

const PROFILE: u8 = if cfg!(debug_assertions) { 1 } else { 0 };

fn head(c: &mut Ctx, k: &str, op: &str, l: Lay) {
    c.wr.raw("{\"k\":\"");
    c.wr.raw(k);
    c.wr.raw("\",\"op\":\"");
    c.wr.raw(op);
    c.wr.raw("\",\"pr\":");
    c.wr.raw(if c.pr == 1 { "1" } else { "0" });
    c.wr.raw(",\"L\":");
    c.wr.lay(l);
}

fn ev_bin<F: Fx>(c: &mut Ctx, op: &str, ar: u128, br: u128) {
    let a = F::from_raw(ar);
    let b = F::from_raw(br);
    let o: [Out; 5] = match op {
        "add" => [o_val(|| a + b), o_opt(|| a.checked_add(b)), o_val(|| a.saturating_add(b)), o_val(|| a.wrapping_add(b)), o_pair(|| a.overflowing_add(b))],
        "sub" => [o_val(|| a - b), o_opt(|| a.checked_sub(b)), o_val(|| a.saturating_sub(b)), o_val(|| a.wrapping_sub(b)), o_pair(|| a.overflowing_sub(b))],
        "mul" => [o_val(|| a * b), o_opt(|| a.checked_mul(b)), o_val(|| a.saturating_mul(b)), o_val(|| a.wrapping_mul(b)), o_pair(|| a.overflowing_mul(b))],
        "div" => [o_val(|| a / b), o_opt(|| a.checked_div(b)), o_val(|| a.saturating_div(b)), o_val(|| a.wrapping_div(b)), o_pair(|| a.overflowing_div(b))],
        "rem" => [o_val(|| a % b), o_opt(|| a.checked_rem(b)), Out::Absent, Out::Absent, Out::Absent],
        "div_euclid" => [o_val(|| a.div_euclid(b)), o_opt(|| a.checked_div_euclid(b)), o_val(|| a.saturating_div_euclid(b)), o_val(|| a.wrapping_div_euclid(b)), o_pair(|| a.overflowing_div_euclid(b))],
        "rem_euclid" => [o_val(|| a.rem_euclid(b)), o_opt(|| a.checked_rem_euclid(b)), Out::Absent, Out::Absent, Out::Absent],
        _ => return,
    };
    head(c, "bin", op, F::lay());
    c.wr.raw(",\"a\":");
    c.wr.num(a.val());
    c.wr.raw(",\"b\":");
    c.wr.num(b.val());
    c.wr.raw(",\"o\":");
    c.wr.outs(&o);
    c.wr.raw("}");
    c.wr.end();
}

fn ev_bini<F: Fx>(c: &mut Ctx, op: &str, ar: u128, nr: u128) {
    let a = F::from_raw(ar);
    let n = || F::int_from_raw(nr);
    let o: [Out; 5] = match op {
        "mul_int" => [o_val(|| a * n()), o_opt(|| a.checked_mul_int(n())), o_val(|| a.saturating_mul_int(n())), o_val(|| a.wrapping_mul_int(n())), o_pair(|| a.overflowing_mul_int(n()))],
        "div_int" => [o_val(|| a / n()), o_opt(|| a.checked_div_int(n())), Out::Absent, o_val(|| a.wrapping_div_int(n())), o_pair(|| a.overflowing_div_int(n()))],
        "rem_int" => [o_val(|| a % n()), o_opt(|| a.checked_rem_int(n())), Out::Absent, o_val(|| a.wrapping_rem_int(n())), o_pair(|| a.overflowing_rem_int(n()))],
        "div_euclid_int" => [o_val(|| a.div_euclid_int(n())), o_opt(|| a.checked_div_euclid_int(n())), Out::Absent, o_val(|| a.wrapping_div_euclid_int(n())), o_pair(|| a.overflowing_div_euclid_int(n()))],
        "rem_euclid_int" => [o_val(|| a.rem_euclid_int(n())), o_opt(|| a.checked_rem_euclid_int(n())), Out::Absent, o_val(|| a.wrapping_rem_euclid_int(n())), o_pair(|| a.overflowing_rem_euclid_int(n()))],
        _ => return,
    };
    head(c, "bini", op, F::lay());
    c.wr.raw(",\"a\":");
    c.wr.num(a.val());
    c.wr.raw(",\"n\":");
    c.wr.num(sval(nr, F::S, F::W));
    c.wr.raw(",\"o\":");
    c.wr.outs(&o);
    c.wr.raw("}");
    c.wr.end();
}

fn ev_un<F: Fx>(c: &mut Ctx, op: &str, ar: u128) {
    let a = F::from_raw(ar);
    let o: [Out; 5] = match op {
        // plain negation of unsigned types does not exist
        "neg" => [Out::Absent, o_opt(|| a.checked_neg()), o_val(|| a.saturating_neg()), o_val(|| a.wrapping_neg()), o_pair(|| a.overflowing_neg())],
        "ceil" => [o_val(|| a.ceil()), o_opt(|| a.checked_ceil()), o_val(|| a.saturating_ceil()), o_val(|| a.wrapping_ceil()), o_pair(|| a.overflowing_ceil())],
        "floor" => [o_val(|| a.floor()), o_opt(|| a.checked_floor()), o_val(|| a.saturating_floor()), o_val(|| a.wrapping_floor()), o_pair(|| a.overflowing_floor())],
        "round" => [o_val(|| a.round()), o_opt(|| a.checked_round()), o_val(|| a.saturating_round()), o_val(|| a.wrapping_round()), o_pair(|| a.overflowing_round())],
        "round_ties_to_even" => [o_val(|| a.round_ties_to_even()), o_opt(|| a.checked_round_ties_to_even()), o_val(|| a.saturating_round_ties_to_even()), o_val(|| a.wrapping_round_ties_to_even()), o_pair(|| a.overflowing_round_ties_to_even())],
        "round_to_zero" => [o_val(|| a.round_to_zero()), Out::Absent, Out::Absent, Out::Absent, Out::Absent],
        "int" => [o_val(|| a.int()), Out::Absent, Out::Absent, Out::Absent, Out::Absent],
        "frac" => [o_val(|| a.frac()), Out::Absent, Out::Absent, Out::Absent, Out::Absent],
        _ => return,
    };
    head(c, "un", op, F::lay());
    c.wr.raw(",\"a\":");
    c.wr.num(a.val());
    c.wr.raw(",\"o\":");
    c.wr.outs(&o);
    c.wr.raw("}");
    c.wr.end();
}

fn ev_un_s<F: Fx + FixedSigned>(c: &mut Ctx, op: &str, ar: u128) {
    let a = F::from_raw(ar);
    let o: [Out; 5] = match op {
        "neg" => [o_val(|| -a), o_opt(|| a.checked_neg()), o_val(|| a.saturating_neg()), o_val(|| a.wrapping_neg()), o_pair(|| a.overflowing_neg())],
        "abs" => [o_val(|| a.abs()), o_opt(|| a.checked_abs()), o_val(|| a.saturating_abs()), o_val(|| a.wrapping_abs()), o_pair(|| a.overflowing_abs())],
        "signum" => [o_val(|| a.signum()), Out::Absent, Out::Absent, Out::Absent, Out::Absent],
        _ => return,
    };
    head(c, "un", op, F::lay());
    c.wr.raw(",\"a\":");
    c.wr.num(a.val());
    c.wr.raw(",\"o\":");
    c.wr.outs(&o);
    c.wr.raw("}");
    c.wr.end();
}

const BIN: &[&str] = &["add", "sub", "mul", "div", "rem", "div_euclid", "rem_euclid"];
const BINI: &[&str] = &["mul_int", "div_int", "rem_int", "div_euclid_int", "rem_euclid_int"];
const UN: &[&str] = &["neg", "ceil", "floor", "round", "round_ties_to_even", "round_to_zero", "int", "frac"];
const UNS: &[&str] = &["neg", "abs", "signum"];

fn pairs(c: &Ctx, l: Lay, salt: u64) -> Vec<(u128, u128)> {
    let mut v = vec![];
    if l.w == 8 {
        let thorough = c.tier == "thorough";
        let lat = gen::lattice_small(l);
        for a in 0..256u128 {
            for b in 0..256u128 {
                let pick = thorough || ((a * 7 + b * 13 + (c.seed as u128) + salt as u128) % 8 == 0);
                if pick {
                    v.push((a, b));
                }
            }
        }
        if !thorough {
            for &a in &lat {
                for &b in &lat {
                    v.push((a, b));
                }
            }
        }
    } else {
        let mut rng = Rng::new(c.seed ^ (l.w as u64) << 32 ^ (l.f as u64) << 16 ^ (l.s as u64) << 8 ^ salt);
        let lat = gen::lattice_small(l);
        for &a in &lat {
            for &b in &lat {
                v.push((a, b));
            }
        }
        let n = c.npairs;
        v.extend(gen::correlated_pairs(l, &mut rng, n));
        for _ in 0..n {
            v.push((rng.pattern(l.w), rng.pattern(l.w)));
        }
        v = capped(v, c.cap, c.seed ^ salt ^ ((l.w as u64) << 32) ^ ((l.f as u64) << 16) ^ l.s as u64);
    }
    v
}

fn singles(c: &Ctx, l: Lay) -> Vec<u128> {
    if l.w == 8 {
        (0..256).collect()
    } else if l.w == 16 && c.tier == "thorough" {
        (0..65536).collect()
    } else {
        let mut rng = Rng::new(c.seed ^ (l.w as u64) << 32 ^ (l.f as u64) << 16 ^ (l.s as u64) << 8 ^ 77);
        let mut v = gen::lattice(l, true);
        v.extend(gen::randoms(l, &mut rng, c.npairs));
        capped(v, c.cap, c.seed ^ ((l.w as u64) << 32) ^ ((l.f as u64) << 16) ^ l.s as u64 ^ 0x51)
    }
}

fn run<F: Fx>(c: &mut Ctx) {
    let l = F::lay();
    let ops = c.ops.clone();
    for (i, op) in ops.iter().enumerate() {
        let op = op.as_str();
        if BIN.contains(&op) {
            for (a, b) in pairs(c, l, i as u64) {
                ev_bin::<F>(c, op, a, b);
            }
        } else if BINI.contains(&op) {
            for (a, n) in pairs(c, l, 100 + i as u64) {
                ev_bini::<F>(c, op, a, n);
            }
        } else if UN.contains(&op) && !(op == "neg" && F::S) {
            for a in singles(c, l) {
                ev_un::<F>(c, op, a);
            }
        }
    }
}
fn run_s<F: Fx + FixedSigned>(c: &mut Ctx) {
    let l = F::lay();
    let ops = c.ops.clone();
    for op in ops.iter() {
        let op = op.as_str();
        if UNS.contains(&op) {
            for a in singles(c, l) {
                ev_un_s::<F>(c, op, a);
            }
        }
    }
}

