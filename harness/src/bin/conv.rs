//! Comparison / conversion / float / codec events (C03, C04, C05, C10).
#![allow(deprecated, unused_imports, unused_macros)]
use sfv::sf::traits::{Fixed, FromFixed, LossyFrom, ToFixed};
use sfv::sf::types::*;
use sfv::*;
use std::cmp::Ordering;
use std::collections::hash_map::DefaultHasher;
use std::hash::{Hash, Hasher};

include!("conv_events.rs");
include!("conv_tables.rs");

fn main() {
    let o = opts();
    silence_panics();
    let mut c = Ctx {
        wr: Wr::new(o.big, o.out.as_deref()),
        topics: o.topic.split(',').map(|s| s.to_string()).collect(),
        tier: o.tier.clone(),
        seed: o.seed,
        n: if o.n > 0 { o.n as usize } else { 30 },
        w8only: !o.big,
        replay: None,
        scale: 1,
    };
    let _ = &c.replay;
    if c.on("cmp") || c.on("conv") {
        run_pairs(&mut c);
    }
    run_singles(&mut c);
    if c.on("x2f") && o.big {
        run_i2f(&mut c);
    }
    if c.on("from") {
        run_froms(&mut c);
        run_probes(&mut c);
    }
    c.wr.flush();
}
