// shared by the conv and convsweep bins (include!)
struct Ctx {
    wr: Wr,
    topics: Vec<String>,
    tier: String,
    seed: u64,
    n: usize,
    w8only: bool,
    replay: Option<Vec<serde_json::Value>>,
    /// sweep bin: divide the per-layout budgets by this
    scale: usize,
}
impl Ctx {
    fn on(&self, t: &str) -> bool {
        self.topics.iter().any(|x| x == t)
    }
}
const PROFILE: u8 = if cfg!(debug_assertions) { 1 } else { 0 };

fn ordc(o: Option<Ordering>) -> i64 {
    match o {
        Some(Ordering::Less) => -1,
        Some(Ordering::Equal) => 0,
        Some(Ordering::Greater) => 1,
        None => 2,
    }
}
/// the seven observables of `x ? y`
fn cmp7<X: PartialOrd<Y>, Y>(x: &X, y: &Y) -> Vec<Out> {
    vec![
        o_bool(|| x == y),
        o_bool(|| x != y),
        o_bool(|| x < y),
        o_bool(|| x <= y),
        o_bool(|| x > y),
        o_bool(|| x >= y),
        match cat(|| ordc(x.partial_cmp(y))) {
            Ok(v) => Out::I(v),
            Err(_) => Out::Panic,
        },
    ]
}

fn head(c: &mut Ctx, k: &str) {
    c.wr.raw("{\"k\":\"");
    c.wr.raw(k);
    c.wr.raw("\",\"pr\":");
    c.wr.raw(if PROFILE == 1 { "1" } else { "0" });
}

// ------------------------------------------------------------------ fixed x fixed
fn ev_pair<A, B>(c: &mut Ctx, ar: u128, br: u128)
where
    A: Fx + PartialOrd<B>,
    B: Fx + PartialOrd<A>,
{
    let a = A::from_raw(ar);
    let b = B::from_raw(br);
    if c.on("cmp") {
        head(c, "cmp");
        c.wr.raw(",\"A\":");
        c.wr.lay(A::lay());
        c.wr.raw(",\"B\":");
        c.wr.lay(B::lay());
        c.wr.raw(",\"a\":");
        c.wr.num(a.val());
        c.wr.raw(",\"b\":");
        c.wr.num(b.val());
        c.wr.raw(",\"o\":");
        c.wr.outs(&cmp7(&a, &b));
        c.wr.raw("}");
        c.wr.end();
    }
}
fn ev_conv<A: Fx, B: Fx>(c: &mut Ctx, ar: u128) {
    let a = A::from_raw(ar);
    head(c, "conv");
    c.wr.raw(",\"A\":");
    c.wr.lay(A::lay());
    c.wr.raw(",\"B\":");
    c.wr.lay(B::lay());
    c.wr.raw(",\"a\":");
    c.wr.num(a.val());
    c.wr.raw(",\"o\":");
    c.wr.outs(&[
        o_val(|| a.to_num::<B>()),
        o_opt(|| a.checked_to_num::<B>()),
        o_val(|| a.saturating_to_num::<B>()),
        o_val(|| a.wrapping_to_num::<B>()),
        o_pair(|| a.overflowing_to_num::<B>()),
    ]);
    c.wr.raw(",\"o2\":");
    c.wr.outs(&[
        o_val(|| B::from_num(a)),
        o_opt(|| B::checked_from_num(a)),
        o_val(|| B::saturating_from_num(a)),
        o_val(|| B::wrapping_from_num(a)),
        o_pair(|| B::overflowing_from_num(a)),
    ]);
    c.wr.raw("}");
    c.wr.end();
}

/// patterns of layout `to` whose value is next to the value of pattern `ar` of layout `from`
fn matched(from: Lay, ar: u128, to: Lay) -> Vec<u128> {
    let v = sval(ar, from.s, from.w);
    let sv: i128 = if v.neg { (v.mag as i128).wrapping_neg() } else { v.mag as i128 };
    let d = to.f as i32 - from.f as i32;
    let base: i128 = if d >= 0 {
        if d >= 127 { return vec![]; }
        sv.wrapping_shl(d as u32)
    } else {
        if -d >= 127 { if sv < 0 { -1 } else { 0 } } else { sv >> (-d) as u32 }
    };
    let m = mask(to.w);
    [-1i128, 0, 1].iter().map(|k| (base.wrapping_add(*k) as u128) & m).collect()
}

/// keep at most k elements, chosen by a seeded partial shuffle (deterministic for a given seed)
fn budget<T: Clone>(mut v: Vec<T>, k: usize, seed: u64) -> Vec<T> {
    if v.len() <= k {
        return v;
    }
    let mut rng = Rng::new(seed ^ 0xB0D6E7);
    for i in 0..k {
        let j = i + rng.below((v.len() - i) as u64) as usize;
        v.swap(i, j);
    }
    v.truncate(k);
    v
}
fn kq(c: &Ctx, quick: usize, thorough: usize) -> usize {
    let k = if c.tier == "thorough" { thorough } else { quick };
    if c.scale > 1 { (k / c.scale).max(6) } else { k }
}

fn pair_values(c: &Ctx, la: Lay, lb: Lay, salt: u64) -> Vec<(u128, u128)> {
    let mut v = vec![];
    if la.w == 8 && lb.w == 8 {
        let thorough = c.tier == "thorough";
        for a in 0..256u128 {
            for b in 0..256u128 {
                if thorough || (a * 5 + b * 11 + c.seed as u128 + salt as u128) % 64 == 0 {
                    v.push((a, b));
                }
            }
        }
        if !thorough {
            let xa = gen::lattice_small(la);
            let xb = gen::lattice_small(lb);
            for &a in &xa { for &b in &xb { v.push((a, b)); } }
            for a in 0..256u128 { for b in matched(la, a, lb) { v.push((a, b)); } }
        }
    } else {
        let xa = gen::lattice_small(la);
        let xb = gen::lattice_small(lb);
        for &a in &xa { for &b in &xb { v.push((a, b)); } }
        for &a in &gen::lattice(la, false) { for b in matched(la, a, lb) { v.push((a, b)); } }
        for &b in &gen::lattice(lb, false) { for a in matched(lb, b, la) { v.push((a, b)); } }
        let mut rng = Rng::new(c.seed ^ salt ^ ((la.w as u64) << 40) ^ ((lb.w as u64) << 24) ^ ((la.f as u64) << 12) ^ lb.f as u64);
        for _ in 0..c.n {
            let a = rng.pattern(la.w);
            v.push((a, rng.pattern(lb.w)));
            for b in matched(la, a, lb) { v.push((a, b)); }
        }
        let k = kq(c, 250, 4000);
        v = budget(v, k, c.seed ^ salt ^ ((la.w as u64) << 40) ^ ((lb.w as u64) << 24) ^ ((la.f as u64) << 12) ^ lb.f as u64);
    }
    v
}

fn single_values(c: &Ctx, l: Lay, salt: u64) -> Vec<u128> {
    if l.w == 8 {
        (0..256).collect()
    } else {
        let mut v = gen::lattice(l, true);
        let mut rng = Rng::new(c.seed ^ salt ^ ((l.w as u64) << 40) ^ ((l.f as u64) << 12) ^ l.s as u64);
        v.extend(gen::randoms(l, &mut rng, c.n));
        let k = kq(c, 120, 2500);
        budget(v, k, c.seed ^ salt ^ ((l.w as u64) << 40) ^ ((l.f as u64) << 12) ^ l.s as u64)
    }
}

fn run2<A, B>(c: &mut Ctx)
where
    A: Fx + PartialOrd<B>,
    B: Fx + PartialOrd<A>,
{
    let (la, lb) = (A::lay(), B::lay());
    if c.w8only != (la.w == 8 && lb.w == 8) {
        return;
    }
    if c.on("cmp") {
        for (a, b) in pair_values(c, la, lb, 1) {
            ev_pair::<A, B>(c, a, b);
        }
    }
    if c.on("conv") {
        for a in single_values(c, la, 2) {
            ev_conv::<A, B>(c, a);
        }
    }
}

// ------------------------------------------------------------------ primitive integers
trait PInt: Copy + ToFixed + FromFixed + 'static {
    const S: bool;
    const W: u32;
    const NAME: &'static str;
    fn from_raw(r: u128) -> Self;
    fn raw(self) -> u128;
    fn lay() -> Lay { Lay { s: Self::S, w: Self::W, f: 0 } }
    fn val(self) -> Num { sval(self.raw(), Self::S, Self::W) }
}
macro_rules! pint {
    ($($t:ident $s:expr, $w:expr;)*) => { $(
        impl PInt for $t {
            const S: bool = $s; const W: u32 = $w; const NAME: &'static str = stringify!($t);
            fn from_raw(r: u128) -> Self { r as $t }
            fn raw(self) -> u128 { (self as u128) & mask($w) }
        }
    )* };
}
pint! { i8 true, 8; i16 true, 16; i32 true, 32; i64 true, 64; i128 true, 128; isize true, 64;
        u8 false, 8; u16 false, 16; u32 false, 32; u64 false, 64; u128 false, 128; usize false, 64; }

fn pi_val<I: PInt>(f: impl FnOnce() -> I) -> Out { o_num(|| f().val()) }
fn pi_opt<I: PInt>(f: impl FnOnce() -> Option<I>) -> Out { o_optnum(|| f().map(|x| x.val())) }
fn pi_pair<I: PInt>(f: impl FnOnce() -> (I, bool)) -> Out { o_numpair(|| { let (v, o) = f(); (v.val(), o) }) }

fn ints<A, I>(c: &mut Ctx)
where
    A: Fx + PartialOrd<I>,
    I: PInt + PartialOrd<A>,
{
    let (la, li) = (A::lay(), I::lay());
    let small = la.w == 8 && li.w == 8;
    if c.w8only != small {
        return;
    }
    if c.on("cmp") {
        for (ar, nr) in pair_values(c, la, li, 3) {
            let a = A::from_raw(ar);
            let n = I::from_raw(nr);
            head(c, "cmp");
            c.wr.raw(",\"it\":\"");
            c.wr.raw(I::NAME);
            c.wr.raw("\",\"A\":");
            c.wr.lay(la);
            c.wr.raw(",\"B\":");
            c.wr.lay(li);
            c.wr.raw(",\"a\":");
            c.wr.num(a.val());
            c.wr.raw(",\"b\":");
            c.wr.num(n.val());
            c.wr.raw(",\"o\":");
            c.wr.outs(&cmp7(&a, &n));
            c.wr.raw(",\"r\":");
            c.wr.outs(&cmp7(&n, &a));
            c.wr.raw("}");
            c.wr.end();
        }
    }
    if c.on("conv") {
        // fixed -> int
        for ar in budget(single_values(c, la, 4), kq(c, 50, 2000), c.seed ^ 0x51 ^ li.w as u64 ^ ((la.f as u64) << 8)) {
            let a = A::from_raw(ar);
            head(c, "conv");
            c.wr.raw(",\"it\":\"");
            c.wr.raw(I::NAME);
            c.wr.raw("\",\"A\":");
            c.wr.lay(la);
            c.wr.raw(",\"B\":");
            c.wr.lay(li);
            c.wr.raw(",\"a\":");
            c.wr.num(a.val());
            c.wr.raw(",\"o\":");
            c.wr.outs(&[
                pi_val(|| a.to_num::<I>()),
                pi_opt(|| a.checked_to_num::<I>()),
                pi_val(|| a.saturating_to_num::<I>()),
                pi_val(|| a.wrapping_to_num::<I>()),
                pi_pair(|| a.overflowing_to_num::<I>()),
            ]);
            c.wr.raw(",\"o2\":");
            c.wr.outs(&[
                pi_val(|| I::from_fixed(a)),
                pi_opt(|| I::checked_from_fixed(a)),
                pi_val(|| I::saturating_from_fixed(a)),
                pi_val(|| I::wrapping_from_fixed(a)),
                pi_pair(|| I::overflowing_from_fixed(a)),
            ]);
            c.wr.raw("}");
            c.wr.end();
        }
        // int -> fixed
        let mut ns = single_values(c, li, 5);
        for ar in gen::lattice(la, false) {
            ns.extend(matched(la, ar, li));
        }
        for nr in budget(ns, kq(c, 70, 3000), c.seed ^ 0x52 ^ li.w as u64 ^ ((la.f as u64) << 8) ^ ((la.w as u64) << 20)) {
            let n = I::from_raw(nr);
            head(c, "conv");
            c.wr.raw(",\"it\":\"");
            c.wr.raw(I::NAME);
            c.wr.raw("\",\"A\":");
            c.wr.lay(li);
            c.wr.raw(",\"B\":");
            c.wr.lay(la);
            c.wr.raw(",\"a\":");
            c.wr.num(n.val());
            c.wr.raw(",\"o\":");
            c.wr.outs(&[
                o_val(|| A::from_num(n)),
                o_opt(|| A::checked_from_num(n)),
                o_val(|| A::saturating_from_num(n)),
                o_val(|| A::wrapping_from_num(n)),
                o_pair(|| A::overflowing_from_num(n)),
            ]);
            c.wr.raw(",\"o2\":");
            c.wr.outs(&[
                o_val(|| n.to_fixed::<A>()),
                o_opt(|| n.checked_to_fixed::<A>()),
                o_val(|| n.saturating_to_fixed::<A>()),
                o_val(|| n.wrapping_to_fixed::<A>()),
                o_pair(|| n.overflowing_to_fixed::<A>()),
            ]);
            c.wr.raw("}");
            c.wr.end();
        }
    }
}

// ------------------------------------------------------------------ floats
trait PFloat: Copy + ToFixed + FromFixed + 'static {
    const BITS: u32;
    const EBITS: u32;
    const MBITS: u32;
    /// the "ft" code of the events (tla/sem/SemConv.tla: FPrec, FEBits, FBias, FEMax)
    const FT: &'static str;
    fn from_b(b: u64) -> Self;
    fn b(self) -> u64;
    /// bits of the float nearest to x (only used to aim generators at interesting neighbourhoods)
    fn near(x: f64) -> u64;
}
impl PFloat for f32 {
    const BITS: u32 = 32;
    const EBITS: u32 = 8;
    const MBITS: u32 = 23;
    const FT: &'static str = "32";
    fn from_b(b: u64) -> f32 { f32::from_bits(b as u32) }
    fn b(self) -> u64 { self.to_bits() as u64 }
    fn near(x: f64) -> u64 { (x as f32).to_bits() as u64 }
}
impl PFloat for f64 {
    const BITS: u32 = 64;
    const EBITS: u32 = 11;
    const MBITS: u32 = 52;
    const FT: &'static str = "64";
    fn from_b(b: u64) -> f64 { f64::from_bits(b) }
    fn b(self) -> u64 { self.to_bits() }
    fn near(x: f64) -> u64 { x.to_bits() }
}
fn pf_val<T: PFloat>(f: impl FnOnce() -> T) -> Out { o_num(|| Num::u(f().b() as u128)) }
fn pf_opt<T: PFloat>(f: impl FnOnce() -> Option<T>) -> Out { o_optnum(|| f().map(|x| Num::u(x.b() as u128))) }
fn pf_pair<T: PFloat>(f: impl FnOnce() -> (T, bool)) -> Out { o_numpair(|| { let (v, o) = f(); (Num::u(v.b() as u128), o) }) }

/// float bit patterns: every (sampled) exponent x mantissa classes, specials, and floats next to
/// the lattice values of the layout
fn float_patterns<T: PFloat>(c: &Ctx, l: Lay, salt: u64) -> Vec<u64> {
    let (ebits, mbits) = (T::EBITS, T::MBITS);
    let bias = (1i64 << (ebits - 1)) - 1;
    let emax = (1u64 << ebits) - 1;
    let mmask = (1u64 << mbits) - 1;
    let mut rng = Rng::new(c.seed ^ salt ^ ((l.w as u64) << 40) ^ ((l.f as u64) << 12) ^ l.s as u64 ^ T::BITS as u64);
    let mut v: Vec<u64> = vec![];
    let thorough = c.tier == "thorough";
    // exponents: all near the layout's range, sampled elsewhere
    let lo = bias - l.f as i64 - (mbits as i64) - 3;
    let hi = bias + (l.w - l.f) as i64 + 2;
    for e in 0..=emax {
        let near = (e as i64) >= lo && (e as i64) <= hi;
        let stride = if T::BITS <= 32 { 4 } else { 32 };
        if !(near || thorough || e % stride == (c.seed % stride) || e <= 1 || e >= emax - 1) {
            continue;
        }
        let mut ms = vec![0u64, 1, mmask, 1u64 << (mbits - 1), (1u64 << (mbits - 1)) + 1, (1u64 << (mbits - 1)) - 1];
        let nr = if near { 6 } else { 1 };
        for _ in 0..nr { ms.push(rng.next() & mmask); }
        for m in ms {
            for s in 0..2u64 {
                v.push((s << (T::BITS - 1)) | (e << mbits) | m);
            }
        }
    }
    // floats adjacent to lattice values (value = bits * 2^-f): ties are at half-ulp offsets
    let sc = |x: f64, k: i32| -> f64 { let mut y = x; let mut k = k; while k > 0 { let s = k.min(1000); y *= 2f64.powi(-s); k -= s; } y };
    for ar in gen::lattice(l, false) {
        let n = sval(ar, l.s, l.w);
        for half in [0u128, 1] {
            // value (2*mag + half) * 2^-(f+1)
            let m2 = n.mag.wrapping_mul(2).wrapping_add(half);
            let x = sc(m2 as f64, l.f as i32 + 1);
            let x = if n.neg { -x } else { x };
            let base: u64 = T::near(x);
            for d in [-2i64, -1, 0, 1, 2] {
                v.push(base.wrapping_add(d as u64) & if T::BITS == 64 { !0 } else { (1u64 << T::BITS) - 1 });
            }
        }
    }
    // NaN payloads, signalling/quiet, both signs
    for s in 0..2u64 {
        for m in [1u64, mmask, 1u64 << (mbits - 1), (1u64 << (mbits - 1)) | 1, 0x1234 & mmask] {
            v.push((s << (T::BITS - 1)) | (emax << mbits) | m);
        }
    }
    v.sort_unstable();
    v.dedup();
    let k = kq(c, 260, 6000);
    budget(v, k, c.seed ^ salt ^ ((l.w as u64) << 40) ^ ((l.f as u64) << 12) ^ T::BITS as u64)
}

fn ev_cmpf<A, T>(c: &mut Ctx, ar: u128, fb: u64)
where
    A: Fx + PartialOrd<T>,
    T: PFloat + PartialOrd<A>,
{
    let (a, x) = (A::from_raw(ar), T::from_b(fb));
    head(c, "cmpf");
    c.wr.raw(",\"ft\":");
    c.wr.raw(T::FT);
    c.wr.raw(",\"A\":");
    c.wr.lay(A::lay());
    c.wr.raw(",\"a\":");
    c.wr.num(a.val());
    c.wr.raw(",\"fb\":");
    c.wr.num(Num::u(fb as u128));
    c.wr.raw(",\"o\":");
    c.wr.outs(&cmp7(&a, &x));
    c.wr.raw(",\"r\":");
    c.wr.outs(&cmp7(&x, &a));
    c.wr.raw("}");
    c.wr.end();
}
fn ev_f2x<A: Fx, T: PFloat>(c: &mut Ctx, fb: u64) {
    let x = T::from_b(fb);
    head(c, "f2x");
    c.wr.raw(",\"ft\":");
    c.wr.raw(T::FT);
    c.wr.raw(",\"B\":");
    c.wr.lay(A::lay());
    c.wr.raw(",\"fb\":");
    c.wr.num(Num::u(fb as u128));
    c.wr.raw(",\"o\":");
    c.wr.outs(&[
        o_val(|| A::from_num(x)),
        o_opt(|| A::checked_from_num(x)),
        o_val(|| A::saturating_from_num(x)),
        o_val(|| A::wrapping_from_num(x)),
        o_pair(|| A::overflowing_from_num(x)),
    ]);
    c.wr.raw(",\"o2\":");
    c.wr.outs(&[
        o_val(|| x.to_fixed::<A>()),
        o_opt(|| x.checked_to_fixed::<A>()),
        o_val(|| x.saturating_to_fixed::<A>()),
        o_val(|| x.wrapping_to_fixed::<A>()),
        o_pair(|| x.overflowing_to_fixed::<A>()),
    ]);
    c.wr.raw("}");
    c.wr.end();
}
fn ev_x2f<A, T>(c: &mut Ctx, ar: u128)
where
    A: Fx,
    T: PFloat + LossyFrom<A>,
{
    let a = A::from_raw(ar);
    head(c, "x2f");
    c.wr.raw(",\"ft\":");
    c.wr.raw(T::FT);
    c.wr.raw(",\"A\":");
    c.wr.lay(A::lay());
    c.wr.raw(",\"a\":");
    c.wr.num(a.val());
    c.wr.raw(",\"o\":");
    c.wr.outs(&[
        pf_val(|| a.to_num::<T>()),
        pf_opt(|| a.checked_to_num::<T>()),
        pf_val(|| a.saturating_to_num::<T>()),
        pf_val(|| a.wrapping_to_num::<T>()),
        pf_pair(|| a.overflowing_to_num::<T>()),
    ]);
    // LossyFrom<fixed> for the float type: the same correctly rounded value
    c.wr.raw(",\"lossy\":");
    c.wr.out1(&pf_val(|| T::lossy_from(a)));
    // From<fixed> for the float type, where the crate provides it (small types: the conversion is exact)
    let fr: Option<Out> = match (T::BITS, T::FT) {
        (32, "32") => a.f32_from().map(|v| Out::V(Num::u(v.to_bits() as u128))),
        (64, "64") => a.f64_from().map(|v| Out::V(Num::u(v.to_bits() as u128))),
        _ => None,          // the 16-bit formats of the optional feature (growth G03) have their own route
    };
    if let Some(o) = fr {
        c.wr.raw(",\"from\":");
        c.wr.out1(&o);
    }
    c.wr.raw("}");
    c.wr.end();
}
/// LossyFrom<integer> for f32 / f64: the correctly rounded value of the integer
fn ev_i2f<I: PInt, T: PFloat + LossyFrom<I>>(c: &mut Ctx) {
    let l = I::lay();
    let mut vals = gen::lattice(l, false);
    let mut rng = Rng::new(c.seed ^ (l.w as u64) << 8 ^ l.s as u64 ^ T::BITS as u64);
    // integers with 24 / 53 significant bits +- tie tails
    for _ in 0..40 { vals.push(rng.pattern(l.w)); }
    for &p in &[24u32, 25, 53, 54] { if p < l.w { for k in 0..4u128 { vals.push(((1u128 << p) + (1u128 << (p - 1)) * (k % 2) + k) & mask(l.w)); vals.push((mask(p) << (l.w - p - (!l.s as u32).min(l.w - p))) & mask(l.w)); } } }
    for v in vals {
        let n = I::from_raw(v);
        head(c, "i2f");
        c.wr.raw(",\"ft\":");
        c.wr.raw(T::FT);
        c.wr.raw(",\"A\":");
        c.wr.lay(l);
        c.wr.raw(",\"a\":");
        c.wr.num(n.val());
        c.wr.raw(",\"lossy\":");
        c.wr.out1(&pf_val(|| T::lossy_from(n)));
        c.wr.raw("}");
        c.wr.end();
    }
}
macro_rules! i2f_all { ($c:expr; $($i:ident)*) => { $( ev_i2f::<$i, f32>($c); ev_i2f::<$i, f64>($c); )* } }
fn run_i2f(c: &mut Ctx) { i2f_all!(c; i8 i16 i32 i64 i128 isize u8 u16 u32 u64 u128 usize); }

fn floats<A, T>(c: &mut Ctx)
where
    A: Fx + PartialOrd<T>,
    T: PFloat + PartialOrd<A> + LossyFrom<A>,
{
    let la = A::lay();
    if c.w8only {
        return;
    }
    let pats = float_patterns::<T>(c, la, 9);
    if c.on("cmpf") {
        let mut avs = gen::lattice_small(la);
        let mut rng = Rng::new(c.seed ^ 0xF10A7 ^ ((la.w as u64) << 40) ^ ((la.f as u64) << 12));
        for (i, &fb) in pats.iter().enumerate().take(kq(c, 110, 3000)) {
            let x = T::from_b(fb);
            // compare with the fixed value nearest the float (both neighbours) and a few lattice values
            let mut cand: Vec<u128> = vec![];
            // (always three candidates, so that the number of events does not depend on the library's behaviour)
            let rr = match cat(|| A::saturating_from_num(x)) { Ok(r) => r.raw(), Err(_) => 0 };
            for d in [-1i128, 0, 1] {
                cand.push((rr.wrapping_add(d as u128)) & mask(la.w));
            }
            cand.push(avs[i % avs.len()]);
            cand.push(rng.pattern(la.w));
            for ar in cand {
                ev_cmpf::<A, T>(c, ar, fb);
            }
        }
        avs.clear();
    }
    if c.on("f2x") {
        for &fb in &pats {
            ev_f2x::<A, T>(c, fb);
        }
    }
    if c.on("x2f") {
        let mut vals = single_values(c, la, 11);
        // values with many significant bits and ties at the float precision
        let p = T::MBITS + 1;
        let mut rng = Rng::new(c.seed ^ 0x2F ^ ((la.w as u64) << 40) ^ ((la.f as u64) << 12));
        if la.w > p {
            for _ in 0..(if c.scale > 1 { c.n } else { c.n.max(40) }) {
                let top = rng.below((la.w - p) as u64 + 1) as u32 + p; // bit length
                let hi = (rng.u128() & mask(p)) | (1u128 << (p - 1));
                let sh = top - p;
                for tail in [0u128, 1, (1u128 << sh) >> 1, ((1u128 << sh) >> 1).wrapping_add(1), ((1u128 << sh) >> 1).wrapping_sub(1), mask(sh)] {
                    let v = ((hi << sh) | (tail & mask(sh))) & mask(la.w);
                    vals.push(v);
                    if la.s { vals.push(v.wrapping_neg() & mask(la.w)); }
                }
            }
        }
        for ar in vals {
            ev_x2f::<A, T>(c, ar);
        }
    }
}

// ------------------------------------------------------------------ one type: Ord / Hash / bool / codec
/// decode a flat JSON object {"k":int,...}: key names and the integer of the first key
fn parse_flat_json(js: &str) -> (Vec<String>, Num) {
    let mut keys = vec![];
    let mut num = Num::u(0);
    let t = js.trim();
    if !(t.starts_with('{') && t.ends_with('}')) {
        return (keys, num);
    }
    for (i, part) in t[1..t.len() - 1].split(',').enumerate() {
        let mut kv = part.splitn(2, ':');
        let k = kv.next().unwrap_or("").trim().trim_matches('"').to_string();
        let v = kv.next().unwrap_or("").trim();
        if i == 0 {
            num = if let Some(m) = v.strip_prefix('-') {
                Num { neg: true, mag: m.parse::<u128>().unwrap_or(0) }
            } else {
                Num { neg: false, mag: v.parse::<u128>().unwrap_or(u128::MAX) }
            };
        }
        keys.push(k);
    }
    (keys, num)
}

fn hash_of<T: Hash>(t: &T) -> u64 {
    let mut h = DefaultHasher::new();
    t.hash(&mut h);
    h.finish()
}

fn one<A>(c: &mut Ctx)
where
    A: Fx + codec::Encode + codec::Decode + codec::MaxEncodedLen + serde::Serialize + serde::de::DeserializeOwned,
    <A as Fixed>::Bits: codec::Encode + Hash,
    <A as Fixed>::Bytes: AsRef<[u8]> + Copy,
    sfv::sf::Wrapping<A>: serde::Serialize + serde::de::DeserializeOwned,
{
    let la = A::lay();
    if c.w8only != (la.w == 8) {
        return;
    }
    if c.on("ord") {
        for (ar, br) in pair_values(c, la, la, 21) {
            let (a, b) = (A::from_raw(ar), A::from_raw(br));
            head(c, "ord");
            c.wr.raw(",\"A\":");
            c.wr.lay(la);
            c.wr.raw(",\"a\":");
            c.wr.num(a.val());
            c.wr.raw(",\"b\":");
            c.wr.num(b.val());
            c.wr.raw(",\"o\":");
            c.wr.outs(&[
                Out::I(ordc(Some(a.cmp(&b)))),
                o_bool(|| hash_of(&a) == hash_of(&b)),
                o_bool(|| hash_of(&a) == hash_of(&a.to_bits())),
                o_bool(|| a.max(b) == if a >= b { a } else { b }),
            ]);
            c.wr.raw("}");
            c.wr.end();
        }
    }
    if c.on("bool") {
        for v in [false, true] {
            head(c, "conv");
            c.wr.raw(",\"it\":\"bool\",\"A\":[0,1,0],\"B\":");
            c.wr.lay(la);
            c.wr.raw(",\"a\":");
            c.wr.num(Num::u(v as u128));
            c.wr.raw(",\"o\":");
            c.wr.outs(&[
                o_val(|| A::from_num(v)),
                o_opt(|| A::checked_from_num(v)),
                o_val(|| A::saturating_from_num(v)),
                o_val(|| A::wrapping_from_num(v)),
                o_pair(|| A::overflowing_from_num(v)),
            ]);
            c.wr.raw(",\"o2\":");
            c.wr.outs(&[
                o_val(|| v.to_fixed::<A>()),
                o_opt(|| v.checked_to_fixed::<A>()),
                o_val(|| v.saturating_to_fixed::<A>()),
                o_val(|| v.wrapping_to_fixed::<A>()),
                o_pair(|| v.overflowing_to_fixed::<A>()),
            ]);
            c.wr.raw("}");
            c.wr.end();
        }
    }
    if c.on("codec") {
        use codec::{Decode, Encode, MaxEncodedLen};
        let nb = (la.w / 8) as usize;
        for ar in single_values(c, la, 31) {
            let a = A::from_raw(ar);
            let enc = a.encode();
            head(c, "codec");
            c.wr.raw(",\"A\":");
            c.wr.lay(la);
            c.wr.raw(",\"a\":");
            c.wr.num(Num::u(ar)); // the bit pattern, unsigned
            c.wr.raw(",\"enc\":");
            c.wr.bytes(&enc);
            c.wr.raw(",\"intenc\":");
            c.wr.bytes(&a.to_bits().encode());
            c.wr.raw(",\"wrapenc\":");
            c.wr.bytes(&sfv::sf::Wrapping(a).0.encode());
            // nested in a tuple and appended to an existing buffer (the encode_to path)
            c.wr.raw(",\"nested\":");
            c.wr.bytes(&(7u8, &a, 9u8).encode());
            let mut buf = vec![0xEEu8];
            a.encode_to(&mut buf);
            c.wr.raw(",\"appended\":");
            c.wr.bytes(&buf);
            c.wr.raw(",\"optenc\":");
            c.wr.bytes(&Some(a).encode());
            // the remaining methods of the Encode trait: using_encoded (directly, through a reference and a Box), size_hint,
            // and containers that encode their elements one after the other
            c.wr.raw(",\"used\":[");
            c.wr.bytes(&a.using_encoded(|b| b.to_vec()));
            c.wr.raw(",");
            c.wr.bytes(&(&a).using_encoded(|b| b.to_vec()));
            c.wr.raw(",");
            c.wr.bytes(&Box::new(a).using_encoded(|b| b.to_vec()));
            c.wr.raw("],\"vecenc\":");
            c.wr.bytes(&vec![a, a].encode());
            c.wr.raw(",\"arrenc\":");
            c.wr.bytes(&[a, a, a].encode());
            c.wr.raw(",\"hint\":");
            c.wr.raw(&format!("{}", a.size_hint()));
            c.wr.raw(",\"size\":");
            c.wr.raw(&format!("{}", a.encoded_size()));
            c.wr.raw(",\"maxlen\":");
            c.wr.raw(&format!("{}", A::max_encoded_len()));
            c.wr.raw(",\"le\":");
            c.wr.bytes(a.to_le_bytes().as_ref());
            c.wr.raw(",\"be\":");
            c.wr.bytes(a.to_be_bytes().as_ref());
            c.wr.raw(",\"ne\":");
            c.wr.bytes(a.to_ne_bytes().as_ref());
            // decode exact, every short prefix, and a long input (extra trailing bytes)
            let dec = |bs: &[u8]| -> Out {
                match cat(|| A::decode(&mut &bs[..])) {
                    Ok(Ok(v)) => Out::V(Num::u(v.raw())),
                    Ok(Err(_)) => Out::None,
                    Err(_) => Out::Panic,
                }
            };
            c.wr.raw(",\"dec\":");
            c.wr.out1(&dec(&enc));
            // decoding the value out of a tuple encoding of the underlying integer
            c.wr.raw(",\"decnested\":");
            let tup = (7u8, a.to_bits(), 9u8).encode();
            c.wr.out1(&match cat(|| <(u8, A, u8)>::decode(&mut &tup[..])) {
                Ok(Ok((x, v, y))) if x == 7 && y == 9 => Out::V(Num::u(v.raw())),
                Ok(_) => Out::None,
                Err(_) => Out::Panic,
            });
            c.wr.raw(",\"decshort\":");
            let shorts: Vec<Out> = (0..nb).map(|k| dec(&enc[..k.min(enc.len())])).collect();
            c.wr.outs(&shorts);
            let mut long = enc.clone();
            long.extend_from_slice(&[0xAB, 0xCD]);
            c.wr.raw(",\"declong\":");
            c.wr.out1(&dec(&long));
            // from_*_bytes(to_*_bytes(a)) and from_bits(to_bits(a))
            c.wr.raw(",\"rt\":");
            c.wr.outs(&[
                o_num(|| Num::u(A::from_le_bytes(a.to_le_bytes()).raw())),
                o_num(|| Num::u(A::from_be_bytes(a.to_be_bytes()).raw())),
                o_num(|| Num::u(A::from_ne_bytes(a.to_ne_bytes()).raw())),
                o_num(|| Num::u(A::from_bits(a.to_bits()).raw())),
                o_num(|| Num::u(A::int_raw(a.to_bits()))),
            ]);
            // serde: JSON text of the value; its keys and the integer it holds are decoded for TLC
            let js = serde_json::to_string(&a).unwrap_or_default();
            let wjs = serde_json::to_string(&sfv::sf::Wrapping(a)).unwrap_or_default();
            c.wr.raw(",\"serde\":");
            c.wr.bytes(js.as_bytes());
            c.wr.raw(",\"wserde\":");
            c.wr.bytes(wjs.as_bytes());
            let (keys, bitsnum) = parse_flat_json(&js);
            c.wr.raw(",\"sk\":[");
            for (i, k) in keys.iter().enumerate() {
                if i > 0 { c.wr.raw(","); }
                c.wr.bytes(k.as_bytes());
            }
            c.wr.raw("],\"sb\":");
            c.wr.num(bitsnum);
            let back: Out = match serde_json::from_str::<A>(&js) {
                Ok(v) => Out::V(Num::u(v.raw())),
                Err(_) => Out::None,
            };
            c.wr.raw(",\"serde_rt\":");
            c.wr.out1(&back);
            // sequence form [bits]
            let bits_txt = js.trim_start_matches("{\"bits\":").trim_end_matches('}').to_string();
            let seq: Out = match serde_json::from_str::<A>(&format!("[{}]", bits_txt)) {
                Ok(v) => Out::V(Num::u(v.raw())),
                Err(_) => Out::None,
            };
            c.wr.raw(",\"serde_seq\":");
            c.wr.out1(&seq);
            // Wrapping<A> reads back what it wrote; malformed documents (duplicate, unknown, missing field) are errors
            let wback: Out = match serde_json::from_str::<sfv::sf::Wrapping<A>>(&wjs) {
                Ok(v) => Out::V(Num::u(v.0.raw())),
                Err(_) => Out::None,
            };
            c.wr.raw(",\"wserde_rt\":");
            c.wr.out1(&wback);
            let bad = |doc: String| -> Out { match cat(|| serde_json::from_str::<A>(&doc)) { Ok(Ok(_)) => Out::V(Num::u(0)), Ok(Err(_)) => Out::None, Err(_) => Out::Panic } };
            c.wr.raw(",\"serde_bad\":");
            c.wr.outs(&[bad(format!("{{\"bits\":{},\"bits\":{}}}", bits_txt, bits_txt)), bad(format!("{{\"bots\":{}}}", bits_txt)), bad("{}".to_string()),
                        bad(format!("{{\"bits\":{},\"more\":1}}", bits_txt)), bad("[]".to_string()), bad(format!("\"{}\"", bits_txt))]);
            c.wr.raw("}");
            c.wr.end();
        }
    }
}

fn run1<A>(c: &mut Ctx)
where
    A: Fx + codec::Encode + codec::Decode + codec::MaxEncodedLen + serde::Serialize + serde::de::DeserializeOwned,
    <A as Fixed>::Bits: codec::Encode + Hash,
    <A as Fixed>::Bytes: AsRef<[u8]> + Copy,
    sfv::sf::Wrapping<A>: serde::Serialize + serde::de::DeserializeOwned,
    i8: PartialOrd<A>, i16: PartialOrd<A>, i32: PartialOrd<A>, i64: PartialOrd<A>, i128: PartialOrd<A>, isize: PartialOrd<A>,
    u8: PartialOrd<A>, u16: PartialOrd<A>, u32: PartialOrd<A>, u64: PartialOrd<A>, u128: PartialOrd<A>, usize: PartialOrd<A>,
    f32: PartialOrd<A> + LossyFrom<A>, f64: PartialOrd<A> + LossyFrom<A>,
{
    if c.on("cmp") || c.on("conv") {
        ints::<A, i8>(c); ints::<A, i16>(c); ints::<A, i32>(c); ints::<A, i64>(c); ints::<A, i128>(c); ints::<A, isize>(c);
        ints::<A, u8>(c); ints::<A, u16>(c); ints::<A, u32>(c); ints::<A, u64>(c); ints::<A, u128>(c); ints::<A, usize>(c);
    }
    if c.on("cmpf") || c.on("f2x") || c.on("x2f") {
        floats::<A, f32>(c);
        floats::<A, f64>(c);
    }
    one::<A>(c);
}

// ------------------------------------------------------------------ From / LossyFrom (impls that exist)
fn ev_from<A: Fx, B: Fx + From<A>>(c: &mut Ctx) {
    if c.w8only { return; }
    for ar in single_values(c, A::lay(), 41) {
        let a = A::from_raw(ar);
        head(c, "from");
        c.wr.raw(",\"tr\":\"From\",\"A\":");
        c.wr.lay(A::lay());
        c.wr.raw(",\"B\":");
        c.wr.lay(B::lay());
        c.wr.raw(",\"a\":");
        c.wr.num(a.val());
        c.wr.raw(",\"o\":");
        c.wr.outs(&[o_val(|| B::from(a)), o_val(|| { let b: B = a.into(); b })]);
        c.wr.raw("}");
        c.wr.end();
    }
}
fn ev_lossy<A: Fx, B: Fx + LossyFrom<A>>(c: &mut Ctx) {
    if c.w8only != (A::W == 8 && B::W == 8) { return; }
    for ar in single_values(c, A::lay(), 43) {
        let a = A::from_raw(ar);
        head(c, "from");
        c.wr.raw(",\"tr\":\"LossyFrom\",\"A\":");
        c.wr.lay(A::lay());
        c.wr.raw(",\"B\":");
        c.wr.lay(B::lay());
        c.wr.raw(",\"a\":");
        c.wr.num(a.val());
        c.wr.raw(",\"o\":");
        c.wr.outs(&[o_val(|| B::lossy_from(a)), o_val(|| { let b: B = sfv::sf::traits::LossyInto::lossy_into(a); b })]);
        c.wr.raw("}");
        c.wr.end();
    }
}
fn ev_from_int<I: PInt, B: Fx + From<I> + LossyFrom<I>>(c: &mut Ctx) {
    if c.w8only { return; }
    for nr in single_values(c, I::lay(), 45) {
        let n = I::from_raw(nr);
        head(c, "from");
        c.wr.raw(",\"tr\":\"From\",\"it\":\"");
        c.wr.raw(I::NAME);
        c.wr.raw("\",\"A\":");
        c.wr.lay(I::lay());
        c.wr.raw(",\"B\":");
        c.wr.lay(B::lay());
        c.wr.raw(",\"a\":");
        c.wr.num(n.val());
        c.wr.raw(",\"o\":");
        c.wr.outs(&[o_val(|| B::from(n)), o_val(|| B::lossy_from(n))]);
        c.wr.raw("}");
        c.wr.end();
    }
}
fn ev_to_int_lossy<A: Fx, I: PInt + LossyFrom<A>>(c: &mut Ctx) {
    if c.w8only { return; }
    for ar in single_values(c, A::lay(), 47) {
        let a = A::from_raw(ar);
        head(c, "from");
        c.wr.raw(",\"tr\":\"LossyFrom\",\"it\":\"");
        c.wr.raw(I::NAME);
        c.wr.raw("\",\"A\":");
        c.wr.lay(A::lay());
        c.wr.raw(",\"B\":");
        c.wr.lay(I::lay());
        c.wr.raw(",\"a\":");
        c.wr.num(a.val());
        c.wr.raw(",\"o\":");
        c.wr.outs(&[pi_val(|| I::lossy_from(a)), pi_val(|| I::lossy_from(a))]);
        c.wr.raw("}");
        c.wr.end();
    }
}
fn ev_to_int_from<A: Fx, I: PInt + From<A>>(c: &mut Ctx) {
    if c.w8only { return; }
    for ar in single_values(c, A::lay(), 49) {
        let a = A::from_raw(ar);
        head(c, "from");
        c.wr.raw(",\"tr\":\"From\",\"it\":\"");
        c.wr.raw(I::NAME);
        c.wr.raw("\",\"A\":");
        c.wr.lay(A::lay());
        c.wr.raw(",\"B\":");
        c.wr.lay(I::lay());
        c.wr.raw(",\"a\":");
        c.wr.num(a.val());
        c.wr.raw(",\"o\":");
        c.wr.outs(&[pi_val(|| I::from(a)), pi_val(|| { let i: I = a.into(); i })]);
        c.wr.raw("}");
        c.wr.end();
    }
}
/// compile-time probe of impl existence (stable Rust): an inherent associated const, available only when the bound
/// holds, shadows the blanket trait const
struct ProbeFrom<S, D>(std::marker::PhantomData<(S, D)>);
struct ProbeLossy<S, D>(std::marker::PhantomData<(S, D)>);
trait NoImpl { const EXISTS: bool = false; }
impl<T> NoImpl for T {}
impl<S, D: From<S>> ProbeFrom<S, D> { const EXISTS: bool = true; }
impl<S, D: LossyFrom<S>> ProbeLossy<S, D> { const EXISTS: bool = true; }
fn ev_probe(c: &mut Ctx, a: Lay, b: Lay, from: bool, lossy: bool) {
    if c.w8only { return; }
    for (tr, ex) in [("From", from), ("LossyFrom", lossy)] {
        head(c, "impl");
        c.wr.raw(",\"tr\":\"");
        c.wr.raw(tr);
        c.wr.raw("\",\"A\":");
        c.wr.lay(a);
        c.wr.raw(",\"B\":");
        c.wr.lay(b);
        c.wr.raw(&format!(",\"exists\":{}}}", ex as u8));
        c.wr.end();
    }
}
macro_rules! probe {
    ($c:expr, $s:ident, $d:ident) => {
        ev_probe($c, <$s as Fx>::lay(), <$d as Fx>::lay(), <ProbeFrom<$s, $d>>::EXISTS, <ProbeLossy<$s, $d>>::EXISTS);
    };
}
fn ev_from_bool<B: Fx + From<bool> + LossyFrom<bool>>(c: &mut Ctx) {
    if c.w8only { return; }
    for v in [false, true] {
        head(c, "from");
        c.wr.raw(",\"tr\":\"From\",\"it\":\"bool\",\"A\":[0,1,0],\"B\":");
        c.wr.lay(B::lay());
        c.wr.raw(",\"a\":");
        c.wr.num(Num::u(v as u128));
        c.wr.raw(",\"o\":");
        c.wr.outs(&[o_val(|| B::from(v)), o_val(|| B::lossy_from(v))]);
        c.wr.raw("}");
        c.wr.end();
    }
}

// ------------------------------------------------------------------ type aliases
/// type aliases: the name, the layout the type reports (trait functions), and its inherent INT_NBITS / FRAC_NBITS constants
fn alias<A: Fx>(c: &mut Ctx, name: &str, int_nbits: u32, frac_nbits: u32) {
    head(c, "alias");
    c.wr.raw(",\"name\":");
    c.wr.bytes(name.as_bytes());
    c.wr.raw(",\"L\":");
    c.wr.lay(Lay { s: A::min_value() < A::from_bits(A::from_raw(0).to_bits()), w: (std::mem::size_of::<A>() * 8) as u32, f: A::frac_nbits() });
    c.wr.raw(",\"ibits\":");
    c.wr.raw(&int_nbits.to_string());
    c.wr.raw(",\"fbits\":");
    c.wr.raw(&frac_nbits.to_string());
    c.wr.raw("}");
    c.wr.end();
}
