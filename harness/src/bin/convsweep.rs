//! Light sweep over ALL 506 layouts (C03 C04 C05 C10): each layout against i8 / i64 / u128, f32 / f64, the codec and
//! serde forms, and conversion to and from two wide fixed layouts.
#![allow(deprecated, unused_imports, unused_macros)]
use sfv::sf::traits::{Fixed, FromFixed, LossyFrom, ToFixed};
use sfv::sf::types::*;
use sfv::*;
use std::cmp::Ordering;
use std::collections::hash_map::DefaultHasher;
use std::hash::{Hash, Hasher};

include!("conv_events.rs");

fn light<A>(c: &mut Ctx)
where
    A: Fx + codec::Encode + codec::Decode + codec::MaxEncodedLen + serde::Serialize + serde::de::DeserializeOwned,
    <A as Fixed>::Bits: codec::Encode + Hash,
    <A as Fixed>::Bytes: AsRef<[u8]> + Copy,
    sfv::sf::Wrapping<A>: serde::Serialize + serde::de::DeserializeOwned,
    A: PartialOrd<I40F88> + PartialOrd<U0F128>,
    I40F88: PartialOrd<A>, U0F128: PartialOrd<A>,
    i8: PartialOrd<A>, i64: PartialOrd<A>, u128: PartialOrd<A>, f32: PartialOrd<A> + LossyFrom<A>, f64: PartialOrd<A> + LossyFrom<A>,
{
    if c.on("cmp") || c.on("conv") {
        ints::<A, i8>(c);
        ints::<A, i64>(c);
        ints::<A, u128>(c);
        run2::<A, I40F88>(c);
        run2::<U0F128, A>(c);
    }
    if c.on("cmpf") || c.on("f2x") || c.on("x2f") {
        floats::<A, f32>(c);
        floats::<A, f64>(c);
    }
    one::<A>(c);
}
macro_rules! runs { ($c:expr; $($t:ident)*) => { $( light::<$t>($c); )* } }
macro_rules! aliases { ($c:expr; $($t:ident)*) => { $( alias::<$t>($c, stringify!($t), <$t>::INT_NBITS, <$t>::FRAC_NBITS); )* } }

fn main() {
    let o = opts();
    silence_panics();
    let mut c = Ctx {
        wr: Wr::new(true, o.out.as_deref()),
        topics: o.topic.split(',').map(|s| s.to_string()).collect(),
        tier: o.tier.clone(),
        seed: o.seed,
        n: if o.n > 0 { o.n as usize } else { 4 },
        w8only: false,
        replay: None,
        scale: 8,
    };
    let _ = &c.replay;
    for_all_layouts!(runs!(&mut c;));
    if c.on("codec") {
        // the aliases the properties quantify over name the layout they spell (C10: width / 8 bytes)
        for_all_layouts!(aliases!(&mut c;));
    }
    c.wr.flush();
}
