//! Transcendental function events (C12 .. C17).
//! Event: {"k":"math","fn":..,"pr":profile,"S":lay,"D":lay,"x":num[,"y":num|"n":int],"r":[kind,num],"it":iterations}
//! kind 0 = Ok / value, 1 = Err, 2 = panic, 3 = iteration budget exhausted (hook)
#![allow(deprecated, unused_imports, unused_macros)]
use core::ops::{AddAssign, BitOrAssign, ShlAssign};
use sfv::sf::traits::{Fixed, FixedSigned, LossyFrom, ToFixed};
use sfv::sf::transcendental as tr;
use sfv::sf::types::*;
use sfv::*;

include!("math_events.rs");

macro_rules! sd { ($c:expr; $f:ident; $($s:ident => $d:ident),*) => { $( $f::<$s, $d>($c); )* } }
macro_rules! tt { ($c:expr; $($t:ident)*) => { $( run_trig::<$t>($c); )* } }

fn main() {
    let o = opts();
    silence_panics();
    let mut c = Ctx {
        wr: Wr::new(true, o.out.as_deref()),
        fns: o.topic.split(',').map(|s| s.to_string()).collect(),
        tier: o.tier.clone(),
        seed: o.seed,
        n: o.n as usize,
        light: 1,
    };
    let _ = c.n;
    // S = D for the ten signed and four unsigned layouts, plus widening pairs
    sd!(&mut c; run_sqrt; I9F23 => I9F23, I9F55 => I9F55, I9F119 => I9F119, I16F48 => I16F48, I32F32 => I32F32, I41F23 => I41F23,
        I40F88 => I40F88, I64F64 => I64F64, I96F32 => I96F32, I105F23 => I105F23,
        U9F23 => U9F23, U32F32 => U32F32, U64F64 => U64F64, U96F32 => U96F32,
        I9F23 => I32F32, I9F23 => I64F64, I32F32 => I64F64, I16F48 => I40F88, U9F23 => U32F32, U32F32 => U64F64, U9F23 => I32F32);
    sd!(&mut c; run_sd; I9F23 => I9F23, I9F55 => I9F55, I9F119 => I9F119, I16F48 => I16F48, I32F32 => I32F32, I41F23 => I41F23,
        I40F88 => I40F88, I64F64 => I64F64, I96F32 => I96F32, I105F23 => I105F23,
        I9F23 => I32F32, I9F23 => I64F64, I32F32 => I64F64, I16F48 => I40F88, U9F23 => I32F32, U32F32 => I64F64);
    sd!(&mut c; run_sd_signed; I9F23 => I9F23, I9F55 => I9F55, I9F119 => I9F119, I16F48 => I16F48, I32F32 => I32F32, I41F23 => I41F23,
        I40F88 => I40F88, I64F64 => I64F64, I96F32 => I96F32, I105F23 => I105F23,
        I9F23 => I32F32, I9F23 => I64F64, I32F32 => I64F64, I16F48 => I40F88);
    // every value of 16-bit layouts with at least 4 integer bits: sqrt needs from_num(2) and headroom for its Newton start value
    // x/2 + 1 (+ x/l), so narrower layouts are not supported by the algorithm (sqrt::<U2F14>(3.46) overflows internally)
    run_sqrt_all::<U8F8>(&mut c);
    run_sqrt_all::<I8F8>(&mut c);
    if c.tier == "thorough" {
        run_sqrt_all::<U4F12>(&mut c);
        run_sqrt_all::<I4F12>(&mut c);
        run_sqrt_all::<U12F4>(&mut c);
        run_sqrt_all::<U16F0>(&mut c);
        run_sqrt_all::<I16F0>(&mut c);
    }
    if c.on("consts") {
        use sfv::sf::consts as k;
        macro_rules! cst { ($($n:ident)*) => { $( {
            let v = k::$n;
            c.wr.raw(&format!("{{\"k\":\"const\",\"name\":\"{}\",\"L\":", stringify!($n)));
            c.wr.lay(lay_of(&v));
            c.wr.raw(",\"a\":");
            c.wr.num(val_of(&v));
            c.wr.raw("}");
            c.wr.end();
        } )* } }
        cst!(TAU FRAC_TAU_2 FRAC_TAU_3 FRAC_TAU_4 FRAC_TAU_6 FRAC_TAU_8 FRAC_TAU_12 FRAC_1_TAU FRAC_2_TAU FRAC_4_TAU PI FRAC_PI_2
             FRAC_PI_3 FRAC_PI_4 FRAC_PI_6 FRAC_PI_8 FRAC_1_PI FRAC_2_PI FRAC_2_SQRT_PI SQRT_2 FRAC_1_SQRT_2 E LOG2_10 LOG2_E
             LOG10_2 LOG10_E LN_2 LN_10);
    }
    if c.on("sin") || c.on("cos") || c.on("tan") {
        tt!(&mut c; I9F23 I9F55 I9F119 I16F48 I32F32 I41F23 I40F88 I64F64 I96F32 I105F23);
    }
    c.wr.flush();
}
