// shared by the math and mathsweep bins (include!)
struct Ctx {
    wr: Wr,
    fns: Vec<String>,
    tier: String,
    seed: u64,
    n: usize,
    /// sweep bin: divide the per-layout budgets by this
    light: usize,
}
impl Ctx {
    fn on(&self, t: &str) -> bool { self.fns.iter().any(|x| x == t) }
    fn k(&self, quick: usize, thorough: usize) -> usize {
        let b = if self.tier == "thorough" { thorough } else { quick };
        if self.light > 1 { (b / self.light).max(2) } else { b }
    }
}
const PROFILE: u8 = if cfg!(debug_assertions) { 1 } else { 0 };

fn bound(ls: Lay, ld: Lay) -> u64 { 4 * ls.w.max(ld.w) as u64 + 64 }

fn emit(c: &mut Ctx, f: &str, ls: Lay, ld: Lay, x: Num, y: Option<Num>, n: Option<i32>, r: Out, it: u64) {
    c.wr.raw("{\"k\":\"math\",\"fn\":\"");
    c.wr.raw(f);
    c.wr.raw("\",\"pr\":");
    c.wr.raw(if PROFILE == 1 { "1" } else { "0" });
    c.wr.raw(",\"S\":");
    c.wr.lay(ls);
    c.wr.raw(",\"D\":");
    c.wr.lay(ld);
    c.wr.raw(",\"x\":");
    c.wr.num(x);
    if let Some(y) = y { c.wr.raw(",\"y\":"); c.wr.num(y); }
    if let Some(n) = n { c.wr.raw(&format!(",\"n\":{}", n)); }
    c.wr.raw(",\"r\":");
    c.wr.out1(&r);
    c.wr.raw(&format!(",\"it\":{}}}", it));
    c.wr.end();
}

fn emit_rp(c: &mut Ctx, f: &str, ls: Lay, ld: Lay, x: Num, n: i32, r: Out, rp: Out, it: u64) {
    c.wr.raw("{\"k\":\"math\",\"fn\":\"");
    c.wr.raw(f);
    c.wr.raw("\",\"pr\":");
    c.wr.raw(if PROFILE == 1 { "1" } else { "0" });
    c.wr.raw(",\"S\":");
    c.wr.lay(ls);
    c.wr.raw(",\"D\":");
    c.wr.lay(ld);
    c.wr.raw(",\"x\":");
    c.wr.num(x);
    c.wr.raw(&format!(",\"n\":{}", n));
    c.wr.raw(",\"r\":");
    c.wr.out1(&r);
    c.wr.raw(",\"rp\":");
    c.wr.out1(&rp);
    c.wr.raw(&format!(",\"it\":{}}}", it));
    c.wr.end();
}

/// run one call with the iteration counter reset and a budget of 64 x the C17 bound
fn call<D: Fx, E>(ls: Lay, ld: Lay, f: impl FnOnce() -> Result<D, E>) -> (Out, u64) {
    call_b(64 * bound(ls, ld), f)
}
/// powi is linear in |n| by design: its budget only guards the harness against a runaway loop
fn call_powi<D: Fx, E>(f: impl FnOnce() -> Result<D, E>) -> (Out, u64) {
    call_b(1 << 22, f)
}
fn call_b<D: Fx, E>(budget: u64, f: impl FnOnce() -> Result<D, E>) -> (Out, u64) {
    tr::verif_hooks::reset();
    tr::verif_hooks::set_budget(budget);
    let r = o_res(f);
    let it = tr::verif_hooks::read();
    tr::verif_hooks::set_budget(u64::MAX);
    (r, it)
}
fn call_plain<D: Fx>(l: Lay, f: impl FnOnce() -> D) -> (Out, u64) {
    tr::verif_hooks::reset();
    tr::verif_hooks::set_budget(64 * bound(l, l));
    let r = o_val(f);
    let it = tr::verif_hooks::read();
    tr::verif_hooks::set_budget(u64::MAX);
    (r, it)
}

fn pos_values(c: &Ctx, l: Lay, rng: &mut Rng, n: usize) -> Vec<u128> {
    // positive patterns: lattice, every power of two +-k ulp, random mantissas in every binade
    let top = if l.s { l.w - 1 } else { l.w };
    let mut v: Vec<u128> = gen::lattice(l, false).into_iter().filter(|&p| !sval(p, l.s, l.w).neg).collect();
    for k in 0..top {
        let p = 1u128 << k;
        for d in [0u128, 1, 2, 3] {
            v.push(p + d);
            if p > d { v.push(p - d); }
        }
        for _ in 0..(n / top as usize).max(1) {
            let m = if k == 0 { 0 } else { rng.u128() & (p - 1) };
            v.push(p | m);
        }
    }
    // around 1.0
    if l.f < top {
        let one = 1u128 << l.f;
        for d in 0..6u128 { v.push(one + d); v.push(one - d.min(one)); }
    }
    v.retain(|&p| p <= mask(top));
    v.sort_unstable();
    v.dedup();
    let _ = c;
    v
}
// a hair above a power of two: relative offsets 2^-24 .. 2^-40 (below the resolution of the I9F23 constants);
// appended after pick() so that sampling never drops them
fn hair_values(l: Lay) -> Vec<u128> {
    let top = if l.s { l.w - 1 } else { l.w };
    let mut v = Vec::new();
    for k in (0..top).filter(|k| k % 3 == 0) {
        let p = 1u128 << k;
        for sh in [24u32, 25, 26, 30, 40] {
            if k >= sh { v.push(p + (p >> sh)); v.push(p + (p >> sh) + (p >> (sh + 2).min(k))); }
        }
    }
    v
}
fn neg_of(l: Lay, p: u128) -> u128 { p.wrapping_neg() & mask(l.w) }

fn pick<T: Clone>(v: Vec<T>, k: usize, seed: u64) -> Vec<T> {
    if v.len() <= k { return v; }
    let mut v = v;
    let mut rng = Rng::new(seed ^ 0x51C);
    for i in 0..k {
        let j = i + rng.below((v.len() - i) as u64) as usize;
        v.swap(i, j);
    }
    v.truncate(k);
    v
}

fn lay_of<F: Fx>(_v: &F) -> Lay { F::lay() }
fn val_of<F: Fx>(v: &F) -> Num { v.val() }

fn run_sqrt<S, D>(c: &mut Ctx)
where
    S: Fx + PartialOrd<I9F23>,
    D: Fx + PartialOrd<I9F23> + From<S>,
{
    let (ls, ld) = (S::lay(), D::lay());
    let mut rng = Rng::new(c.seed ^ 0x5097 ^ ((ls.w as u64) << 40) ^ ((ls.f as u64) << 24) ^ ((ld.w as u64) << 12) ^ ld.f as u64 ^ ((ls.s as u64) << 60));
    let seed = rng.next();
    if c.on("sqrt") {
        let mut xs = pos_values(c, ls, &mut rng, c.k(60, 600));
        // perfect squares +- 1 ulp
        for _ in 0..c.k(20, 300) {
            let h = rng.pattern(ls.w / 2) & mask(ls.w / 2 - 1);
            let sq = h.wrapping_mul(h) & mask(if ls.s { ls.w - 1 } else { ls.w });
            xs.push(sq); xs.push(sq.wrapping_add(1) & mask(ls.w - 1)); xs.push(sq.wrapping_sub(1) & mask(ls.w - 1));
        }
        let mut xs = pick(xs, c.k(260, 5000), seed);
        xs.push(0);
        if ls.s { xs.push(neg_of(ls, 1)); xs.push(1u128 << (ls.w - 1)); xs.push(neg_of(ls, 1 << ls.f.min(ls.w - 2))); }
        for x in xs {
            let a = S::from_raw(x);
            let (r, it) = call::<D, _>(ls, ld, || tr::sqrt::<S, D>(a));
            emit(c, "sqrt", ls, ld, a.val(), None, None, r, it);
        }
    }
}

/// sqrt on EVERY value of a 16-bit layout (topic sqrt16): the function is generic, so the small layouts run the same code
fn run_sqrt_all<S>(c: &mut Ctx)
where
    S: Fx + PartialOrd<I9F23>,
{
    let l = S::lay();
    if !c.on("sqrt16") { return; }
    for x in 0..(1u128 << l.w) {
        let a = S::from_raw(x);
        let (r, it) = call::<S, _>(l, l, || tr::sqrt::<S, S>(a));
        emit(c, "sqrt", l, l, a.val(), None, None, r, it);
    }
}

fn run_sd<S, D>(c: &mut Ctx)
where
    S: Fx + PartialOrd<I9F23>,
    D: Fx + PartialOrd<I9F23> + From<S> + From<I9F23>,
    D::Bits: Copy + ToFixed + AddAssign + BitOrAssign + ShlAssign,
{
    let (ls, ld) = (S::lay(), D::lay());
    let mut rng = Rng::new(c.seed ^ ((ls.w as u64) << 40) ^ ((ls.f as u64) << 24) ^ ((ld.w as u64) << 12) ^ ld.f as u64 ^ ((ls.s as u64) << 60));
    let seed = rng.next();
    if c.on("powi") {
        let mut xs: Vec<u128> = gen::lattice_small(ls);
        xs.extend(gen::randoms(ls, &mut rng, c.k(10, 100)));
        if ls.f < ls.w - 1 {
            let one = 1u128 << ls.f;
            for d in [0u128, 1, 2] { xs.push(one + d); xs.push(one - d); xs.push(2 * one + d); xs.push(one + one / 2 + d); xs.push(one / 2 + d); xs.push(3 * one); xs.push(10 * one); }
            if ls.s { for d in [0u128, 1] { xs.push(neg_of(ls, one + d)); xs.push(neg_of(ls, 2 * one)); xs.push(neg_of(ls, one / 2)); xs.push(neg_of(ls, one + one / 4)); } }
        }
        let xs = pick(xs, c.k(40, 400), seed ^ 1);
        let ns: Vec<i32> = vec![0, 1, -1, 2, -2, 3, -3, 4, 5, 7, -7, 8, 16, 31, -31, 32, 33, 63, 64, 100, -100, 1000, i32::MIN, i32::MIN + 1];
        for (i, &x) in xs.iter().enumerate() {
            let a = S::from_raw(x);
            let v = a.val();
            // |x| <= 1 makes the loop run |n| times: keep |n| small there
            // the loop runs |n| - 1 times unless the product overflows: that happens quickly only for |x| >= 1.5
            let small = v.mag < (3u128 << ls.f.min(125)) >> 1;
            let mut nn: Vec<i32> = ns.clone();
            for _ in 0..4 { nn.push(rng.below(81) as i32 - 40); }
            if !small { nn.push(i32::MAX); nn.push(-i32::MAX); }
            nn.push(65537);
            if small && c.tier == "thorough" && i % 97 == 0 { nn.push(3_000_000); }
            for n in nn {
                if small && (n == i32::MIN || n == i32::MIN + 1) && !(v.mag == 0) { continue; }
                let (r, it) = call_powi::<D, _>(|| tr::powi::<S, D>(a, n));
                if n < 0 && n != i32::MIN {
                    // the positive power, for the "truncated reciprocal" clause
                    let (rp, _) = call_powi::<D, _>(|| tr::powi::<S, D>(a, -n));
                    emit_rp(c, "powi", ls, ld, v, n, r, rp, it);
                } else {
                    emit(c, "powi", ls, ld, v, None, Some(n), r, it);
                }
            }
        }
        // thorough tier, one 64-bit layout: x = +-1 with n = i32::MIN runs all 2^31 - 1 multiplications (minutes); the only
        // operands for which the full loop at the extreme exponent yields a result
        if c.tier == "thorough" && c.light <= 1 && ls.w == 64 && ls.f == 32 && ld.w == 64 && ld.f == 32 {
            for x in [1u128 << ls.f, neg_of(ls, 1u128 << ls.f)] {
                let a = S::from_raw(x);
                let (r, it) = call_b::<D, _>(u64::MAX, || tr::powi::<S, D>(a, i32::MIN));
                emit(c, "powi", ls, ld, a.val(), None, Some(i32::MIN), r, it);
            }
        }
        // i32::MIN with |x| > 1 terminates quickly through overflow; with x = 0 it returns at once
        for x in [0u128, (3u128 << ls.f.min(120)) & mask(ls.w - 1)] {
            let a = S::from_raw(x);
            for n in [i32::MIN, i32::MIN + 1] {
                let (r, it) = call_powi::<D, _>(|| tr::powi::<S, D>(a, n));
                emit(c, "powi", ls, ld, a.val(), None, Some(n), r, it);
            }
        }
    }
}

fn run_sd_signed<S, D>(c: &mut Ctx)
where
    S: Fx + FixedSigned + PartialOrd<I9F23>,
    D: Fx + FixedSigned + PartialOrd<I9F23> + From<S> + From<I9F23>,
    D::Bits: Copy + ToFixed + AddAssign + BitOrAssign + ShlAssign,
{
    let (ls, ld) = (S::lay(), D::lay());
    let mut rng = Rng::new(c.seed ^ 0x5151 ^ ((ls.w as u64) << 40) ^ ((ls.f as u64) << 24) ^ ((ld.w as u64) << 12) ^ ld.f as u64);
    let seed = rng.next();
    if c.on("log2") || c.on("ln") {
        let mut xs = pick(pos_values(c, ls, &mut rng, c.k(60, 600)), c.k(220, 4000), seed);
        // every exact power of two
        for k in 0..ls.w - 1 { xs.push(1u128 << k); }
        xs.extend(hair_values(ls));
        xs.push(0);
        xs.push(neg_of(ls, 1));
        xs.push(1u128 << (ls.w - 1));
        xs.push(neg_of(ls, 1 << ls.f.min(ls.w - 2)));
        for x in xs {
            let a = S::from_raw(x);
            if c.on("log2") {
                let (r, it) = call::<D, _>(ls, ld, || tr::log2::<S, D>(a));
                emit(c, "log2", ls, ld, a.val(), None, None, r, it);
            }
            if c.on("ln") {
                let (r, it) = call::<D, _>(ls, ld, || tr::ln::<S, D>(a));
                emit(c, "ln", ls, ld, a.val(), None, None, r, it);
            }
        }
    }
    if c.on("exp") {
        // operands up to the overflow threshold of D (ln(2) * integer bits), dense near it
        let ibits = (ld.w - ld.f - 1) as f64;
        let thr = ibits * 0.6931471805599453;
        let scale = |v: f64| -> u128 { let m = (v.abs() * 2f64.powi(ls.f.min(100) as i32)) as u128; let m = if ls.f > 100 { m << (ls.f - 100) } else { m }; let m = m & mask(ls.w - 1); if v < 0.0 { neg_of(ls, m) } else { m } };
        let mut xs: Vec<u128> = vec![0, 1, 2, neg_of(ls, 1), neg_of(ls, 2), 1u128 << ls.f, (1u128 << ls.f) + 1, (1u128 << ls.f) - 1, neg_of(ls, 1u128 << ls.f), 1u128 << (ls.w - 1), mask(ls.w - 1)];
        let smax = ((1u128 << (ls.w - ls.f - 1).min(60)) as f64).min(thr + 2.0);
        for i in 0..c.k(50, 800) {
            let t = (i as f64 / c.k(50, 800) as f64) * smax;
            xs.push(scale(t)); xs.push(scale(-t));
        }
        for _ in 0..c.k(60, 1000) {
            let t = (rng.below(1 << 30) as f64 / (1u64 << 30) as f64) * smax;
            xs.push(scale(t) ^ (rng.next() as u128 & mask(ls.f.min(20))));
            xs.push(scale(-t));
            let near = thr - (rng.below(1000) as f64) / 400.0;
            if near > 0.0 && near < smax { xs.push(scale(near)); xs.push(scale(-near)); }
            let tiny = (rng.below(1 << 20) as f64) / (1u64 << 24) as f64;
            xs.push(scale(tiny)); xs.push(scale(-tiny));
        }
        for x in xs {
            let a = S::from_raw(x & mask(ls.w));
            let (r, it) = call::<D, _>(ls, ld, || tr::exp::<S, D>(a));
            emit(c, "exp", ls, ld, a.val(), None, None, r, it);
        }
    }
    if c.on("pow") {
        let fx = |v: f64| -> u128 { let m = (v.abs() * 2f64.powi(ls.f.min(100) as i32)) as u128; let m = if ls.f > 100 { m << (ls.f - 100) } else { m }; let m = m & mask(ls.w - 1); if v < 0.0 { neg_of(ls, m) } else { m } };
        let bases = [0.0, 1.0, 2.0, 0.5, 2.718281828, 10.0, 1.0001, 0.9999, 3.5, 0.001, 100.0, 7.25, -2.0, -0.5];
        let exps = [0.0, 1.0, 2.0, 0.5, -1.0, -0.5, 3.0, 1.5, 0.001, -3.25, 10.0, 0.3333333, 7.0];
        let mut pairs: Vec<(u128, u128)> = vec![];
        for &b in &bases { for &e in &exps { pairs.push((fx(b), fx(e))); } }
        let imax = ((ld.w - ld.f - 1) as f64) * 0.69;
        for _ in 0..c.k(60, 1500) {
            let b = (rng.below(1 << 24) as f64 / (1u64 << 20) as f64) + 0.01;
            let lnb = b.ln().abs().max(0.01);
            let e = ((rng.below(2001) as f64 - 1000.0) / 1000.0) * (imax / lnb).min(200.0);
            pairs.push((fx(b) | (rng.next() as u128 & mask(ls.f.min(16))), fx(e)));
        }
        // whole-number exponents far above the work bound, with bases at or near 1 (a pow that loops |y| times shows here)
        let emax = ((1u128 << (ls.w - ls.f - 1).min(40)) - 1) as f64;
        for &b in &[0.999, 0.99, 1.0001, 0.5, 1.0 - 2f64.powi(-(ls.f.min(40) as i32)), 1.0 + 2f64.powi(-(ls.f.min(40) as i32)), 1.5] {
            for &e in &[255.0, 1000.0, 100000.0, 1048576.0, emax, emax - 1.0, -255.0, -100000.0] {
                if e.abs() <= emax { pairs.push((fx(b), fx(e))); }
            }
        }
        // y * ln x at and beyond the range of D (the product must be refused, not wrapped): extreme bases x extreme exponents
        {
            let mx = mask(ls.w - 1);                                   // S::MAX
            let mn = 1u128 << (ls.w - 1);                              // S::MIN
            let bs = [mx, mx >> 1, 1u128 << (ls.w - 2), 8u128 << ls.f, 1, 2, 1u128 << (ls.f / 2), (1u128 << ls.f) + (1u128 << (ls.f - 1))];
            let es = [mx, mn, mx >> 1, mn | (mn >> 1), 1u128 << (ls.w - 3), neg_of(ls, 1u128 << (ls.w - 3)),
                      (1u128 << ls.f) << ((ls.w - ls.f) / 2), neg_of(ls, (1u128 << ls.f) << ((ls.w - ls.f) / 2)), 40u128 << ls.f, neg_of(ls, 40u128 << ls.f)];
            for &b in &bs { for &e in &es { pairs.push((b, e)); } }
        }
        for (x, y) in pairs {
            let (a, b) = (S::from_raw(x & mask(ls.w)), S::from_raw(y & mask(ls.w)));
            let (r, it) = call::<D, _>(ls, ld, || tr::pow::<S, D>(a, b));
            emit(c, "pow", ls, ld, a.val(), Some(b.val()), None, r, it);
        }
    }
}

fn run_trig<T>(c: &mut Ctx)
where
    T: Fx + FixedSigned + PartialOrd<I9F23> + LossyFrom<I9F23> + LossyFrom<I9F55> + LossyFrom<U0F128>,
{
    let l = T::lay();
    let mut rng = Rng::new(c.seed ^ 0x7219 ^ ((l.w as u64) << 40) ^ ((l.f as u64) << 24));
    let fx = |v: f64| -> u128 { let m = (v.abs() * 2f64.powi(l.f.min(100) as i32)) as u128; let m = if l.f > 100 { m << (l.f - 100) } else { m }; let m = m & mask(l.w - 1); if v < 0.0 { neg_of(l, m) } else { m } };
    let mut xs: Vec<u128> = vec![0, 1, neg_of(l, 1), fx(200.0), fx(-200.0), fx(100.0), fx(-100.0), fx(199.99999), fx(1.0), fx(-1.0)];
    // every multiple of pi/4 within +-200, +- a few ulps
    let q = std::f64::consts::FRAC_PI_4;
    let stepk = (if c.tier == "thorough" { 1 } else { 7 }) * if c.light > 1 { 9 } else { 1 };
    let mut k = -254i32;
    while k <= 254 {
        let t = k as f64 * q;
        for d in [-3i128, -1, 0, 1, 3] {
            let p = (fx(t) as i128).wrapping_add(d) as u128 & mask(l.w);
            xs.push(p);
        }
        k += stepk;
    }
    for _ in 0..c.k(70, 6000) {
        xs.push(fx((rng.below(1 << 30) as f64 / (1u64 << 30) as f64 - 0.5) * 400.0) ^ (rng.next() as u128 & mask(l.f.min(24))));
        xs.push(fx((rng.below(1 << 30) as f64 / (1u64 << 30) as f64 - 0.5) * 6.4));
        xs.push(fx((rng.below(1 << 30) as f64 / (1u64 << 30) as f64 - 0.5) * 200.0));
    }
    if l.w == 32 && l.f == 23 {
        // I9F23: a stratified sample of all bit patterns with |x| <= 200
        let n = c.k(1 << 10, 1 << 16) as u128;
        let span = fx(200.0) * 2;
        for i in 0..n { xs.push((fx(-200.0).wrapping_add(i * span / n + (rng.next() as u128 % (span / n).max(1)))) & mask(32)); }
    }
    // magnitudes beyond the accuracy domain: bounded work (C17) must still hold
    let big: Vec<u128> = {
        let mut b = vec![mask(l.w - 1), 1u128 << (l.w - 1), neg_of(l, mask(l.w - 1))];
        let mut kk = l.f + 8;
        while kk < l.w - 1 { b.push(1u128 << kk); b.push(neg_of(l, 1u128 << kk)); b.push((1u128 << kk) + (rng.next() as u128 & mask(kk))); kk += 3; }
        b
    };
    for (j, xs) in [xs, big].into_iter().enumerate() {
        for x in xs {
            let a = T::from_raw(x & mask(l.w));
            let tag = j as u32;
            if c.on("sin") { let (r, it) = call_plain::<T>(l, || tr::sin(a)); emit(c, "sin", l, l, a.val(), None, Some(tag as i32), r, it); }
            if c.on("cos") { let (r, it) = call_plain::<T>(l, || tr::cos(a)); emit(c, "cos", l, l, a.val(), None, Some(tag as i32), r, it); }
            if c.on("tan") { let (r, it) = call_plain::<T>(l, || tr::tan(a)); emit(c, "tan", l, l, a.val(), None, Some(tag as i32), r, it); }
        }
    }
}

