//! Light sweep of the transcendental functions over further layouts (C12..C17): every limb-boundary neighbourhood of the
//! 128-bit family (59..66 fractional bits, where pi/2, pi and 2 pi cross 2^63 / 2^64 as raw integers), and a spread of the rest.
//! Event: {"k":"math","fn":..,"pr":profile,"S":lay,"D":lay,"x":num[,"y":num|"n":int],"r":[kind,num],"it":iterations}
//! kind 0 = Ok / value, 1 = Err, 2 = panic, 3 = iteration budget exhausted (hook)
#![allow(deprecated, unused_imports, unused_macros)]
use core::ops::{AddAssign, BitOrAssign, ShlAssign};
use sfv::sf::traits::{Fixed, FixedSigned, LossyFrom, ToFixed};
use sfv::sf::transcendental as tr;
use sfv::sf::types::*;
use sfv::*;

include!("math_events.rs");

macro_rules! same { ($c:expr; $f:ident; $($s:ident)*) => { $( $f::<$s, $s>($c); )* } }
macro_rules! tt { ($c:expr; $($t:ident)*) => { $( run_trig::<$t>($c); )* } }
macro_rules! sweep_s { ($m:ident!($($pre:tt)*)) => { $m!($($pre)* I40F24 I33F31 I31F33 I24F40 I17F47 I10F54
    I104F24 I97F31 I95F33 I81F47 I73F55 I72F56 I71F57 I69F59 I68F60 I67F61 I66F62 I65F63 I63F65 I62F66 I56F72 I48F80 I32F96 I24F104 I16F112 I10F118) } }

fn main() {
    let o = opts();
    silence_panics();
    let mut c = Ctx {
        wr: Wr::new(true, o.out.as_deref()),
        fns: o.topic.split(',').map(|s| s.to_string()).collect(),
        tier: o.tier.clone(),
        seed: o.seed,
        n: o.n as usize,
        light: 8,
    };
    let _ = c.n;
    sweep_s!(same!(&mut c; run_sqrt;));
    same!(&mut c; run_sqrt; U40F24 U31F33 U65F63 U67F61 U10F118);
    sweep_s!(same!(&mut c; run_sd;));
    sweep_s!(same!(&mut c; run_sd_signed;));
    if c.on("sin") || c.on("cos") || c.on("tan") {
        sweep_s!(tt!(&mut c;));
    }
    c.wr.flush();
}
