//! Light sweep over ALL 506 layouts (thorough tier): mul / div / rem / Euclid / rounding in every form on the
//! boundary lattice, so that a special case dropped for a single fractional-bit count is exercised.
#![allow(deprecated, unused_imports)]
use sfv::sf::traits::{Fixed, FixedSigned};
use sfv::*;

include!("arith_events.rs");

fn main() {
    let o = opts();
    silence_panics();
    let mut c = Ctx {
        wr: Wr::new(o.big, o.out.as_deref()),
        ops: o.topic.split(',').map(|s| s.to_string()).collect(),
        tier: "quick".into(),
        seed: o.seed,
        pr: PROFILE,
        npairs: if o.n > 0 { o.n as usize } else { 20 },
        cap: if o.n > 0 { o.n as usize } else { 40 },
        fixed: None,
    };
    let mut t: Vec<Entry<Ctx>> = vec![];
    let mut ts: Vec<Entry<Ctx>> = vec![];
    t.extend(for_all_layouts!(lay_table!(Ctx; run;)));
    ts.extend(for_all_layouts_s!(lay_table!(Ctx; run_s;)));
    if let Some(path) = &o.replay {
        replay_events(&mut c, path, &[&t, &ts], &[16, 32, 64, 128]);
        c.wr.flush();
        return;
    }
    for e in t.iter().chain(ts.iter()) {
        // the 8-bit layouts are covered exhaustively by the arith bin
        if e.lay.w > 8 && (o.widths.is_empty() || o.widths.contains(&e.lay.w)) {
            (e.run)(&mut c);
        }
    }
    c.wr.flush();
}
