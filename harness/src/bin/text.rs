//! Parsing and formatting events (C08, C09; Wrapping parsing for C18).
#![allow(deprecated, unused_imports, unused_macros)]
use sfv::sf::traits::Fixed;
use sfv::sf::types::*;
use sfv::sf::Wrapping;
use sfv::*;
use std::fmt::Write as _;

struct Ctx {
    wr: Wr,
    topics: Vec<String>,
    tier: String,
    seed: u64,
    n: usize,
    /// light mode (sweep over all layouts): a handful of literals / values per layout
    light: bool,
}
impl Ctx {
    fn on(&self, t: &str) -> bool { self.topics.iter().any(|x| x == t) }
    fn thorough(&self) -> bool { self.tier == "thorough" }
}
const PROFILE: u8 = if cfg!(debug_assertions) { 1 } else { 0 };

// ---------------------------------------------------------------- parsing
fn ev_parse<F: Fx>(c: &mut Ctx, rx: u32, s: &[u8]) {
    let st: &str = match std::str::from_utf8(s) { Ok(x) => x, Err(_) => return };
    let o: [Out; 4] = match rx {
        10 => [o_res(|| st.parse::<F>()), o_res(|| F::saturating_from_str(st)), o_res(|| F::wrapping_from_str(st)), o_respair(|| F::overflowing_from_str(st))],
        2 => [o_res(|| F::from_str_binary(st)), o_res(|| F::saturating_from_str_binary(st)), o_res(|| F::wrapping_from_str_binary(st)), o_respair(|| F::overflowing_from_str_binary(st))],
        8 => [o_res(|| F::from_str_octal(st)), o_res(|| F::saturating_from_str_octal(st)), o_res(|| F::wrapping_from_str_octal(st)), o_respair(|| F::overflowing_from_str_octal(st))],
        _ => [o_res(|| F::from_str_hex(st)), o_res(|| F::saturating_from_str_hex(st)), o_res(|| F::wrapping_from_str_hex(st)), o_respair(|| F::overflowing_from_str_hex(st))],
    };
    // Wrapping<F> parsing (C18): must equal the wrapping form
    let w: Out = match rx {
        10 => match cat(|| st.parse::<Wrapping<F>>()) { Ok(Ok(v)) => Out::V(v.0.val()), Ok(Err(_)) => Out::None, Err(_) => Out::Panic },
        2 => match cat(|| Wrapping::<F>::from_str_binary(st)) { Ok(Ok(v)) => Out::V(v.0.val()), Ok(Err(_)) => Out::None, Err(_) => Out::Panic },
        8 => match cat(|| Wrapping::<F>::from_str_octal(st)) { Ok(Ok(v)) => Out::V(v.0.val()), Ok(Err(_)) => Out::None, Err(_) => Out::Panic },
        _ => match cat(|| Wrapping::<F>::from_str_hex(st)) { Ok(Ok(v)) => Out::V(v.0.val()), Ok(Err(_)) => Out::None, Err(_) => Out::Panic },
    };
    c.wr.raw("{\"k\":\"parse\",\"pr\":");
    c.wr.raw(if PROFILE == 1 { "1" } else { "0" });
    c.wr.raw(&format!(",\"rx\":{},\"L\":", rx));
    c.wr.lay(F::lay());
    c.wr.raw(",\"s\":");
    c.wr.bytes(s);
    c.wr.raw(",\"o\":");
    c.wr.outs(&o);
    c.wr.raw(",\"w\":");
    c.wr.out1(&w);
    c.wr.raw("}");
    c.wr.end();
}

/// decimal digits (most significant first) of n * m, n given as digits
fn dec_mul_small(d: &mut Vec<u8>, m: u32) {
    let mut carry = 0u32;
    for x in d.iter_mut().rev() {
        let t = *x as u32 * m + carry;
        *x = (t % 10) as u8;
        carry = t / 10;
    }
    while carry > 0 {
        d.insert(0, (carry % 10) as u8);
        carry /= 10;
    }
}
fn dec_of_u128(mut v: u128) -> Vec<u8> {
    if v == 0 { return vec![0]; }
    let mut d = vec![];
    while v > 0 { d.push((v % 10) as u8); v /= 10; }
    d.reverse();
    d
}
/// exact decimal expansion of num / 2^k as (int digits, frac digits [k of them])
fn exact_dec(num: u128, k: u32) -> (Vec<u8>, Vec<u8>) {
    // num / 2^k = num * 5^k / 10^k
    let mut d = dec_of_u128(num);
    for _ in 0..k { dec_mul_small(&mut d, 5); }
    let k = k as usize;
    while d.len() < k + 1 { d.insert(0, 0); }
    let split = d.len() - k;
    (d[..split].to_vec(), d[split..].to_vec())
}
fn lit(neg: bool, int: &[u8], frac: &[u8]) -> Vec<u8> {
    let mut s = vec![];
    if neg { s.push(b'-'); }
    let mut i = 0;
    while i + 1 < int.len() && int[i] == 0 { i += 1; }
    for d in &int[i..] { s.push(b'0' + d); }
    if !frac.is_empty() {
        s.push(b'.');
        for d in frac { s.push(b'0' + d); }
    }
    s
}

/// literals around the rounding ties of the layout (decimal)
fn tie_literals(l: Lay, rng: &mut Rng, count: usize) -> Vec<Vec<u8>> {
    let mut out = vec![];
    let w = l.w;
    let maxbits: u128 = if l.s { mask(w - 1) } else { mask(w) };
    let mut ks: Vec<u128> = vec![0, 1, 2, 3, maxbits / 2, maxbits.saturating_sub(1), maxbits];
    // fractions with a short binary expansion and odd floors
    for _ in 0..count { ks.push(rng.pattern(w) & maxbits); }
    if l.f >= 4 { ks.push(0x33 & maxbits); ks.push(0x66 & maxbits); ks.push(0xB3 & maxbits); }
    for k in ks {
        if l.f + 1 > 127 && k > (u128::MAX >> 2) { continue; }
        // tie between k and k+1 ulps: (2k+1) / 2^(f+1)
        let num = k.checked_mul(2).and_then(|x| x.checked_add(1));
        let num = match num { Some(n) => n, None => continue };
        let (int, frac) = exact_dec(num, l.f + 1);
        let negs: &[bool] = if l.s { &[false, true] } else { &[false] };
        for &neg in negs {
            out.push(lit(neg, &int, &frac));
            // proper prefixes
            for cut in [1usize, 2, frac.len() / 2, frac.len().saturating_sub(4)] {
                if cut > 0 && cut < frac.len() { out.push(lit(neg, &int, &frac[..frac.len() - cut])); }
            }
            // +-1 in the last place
            if let Some(&last) = frac.last() {
                let mut f2 = frac.clone();
                let n = f2.len();
                f2[n - 1] = if last == 0 { 1 } else { last - 1 };
                out.push(lit(neg, &int, &f2));
                let mut f3 = frac.clone();
                if last < 9 { f3[n - 1] = last + 1; out.push(lit(neg, &int, &f3)); }
            }
            // tie followed by 0...01 and by 0000
            let mut f4 = frac.clone();
            f4.extend_from_slice(&[0, 0, 0, 0, 0, 0, 1]);
            out.push(lit(neg, &int, &f4));
            let mut f5 = frac.clone();
            f5.extend_from_slice(&[0, 0, 0]);
            out.push(lit(neg, &int, &f5));
            // a prefix followed by 9s (just below) and by 0..01 (just above the prefix)
            if frac.len() > 3 {
                let mut f6 = frac[..frac.len() - 2].to_vec();
                f6.extend_from_slice(&[9, 9, 9, 9]);
                out.push(lit(neg, &int, &f6));
            }
        }
    }
    out
}

fn radix_literals(l: Lay, rx: u32, rng: &mut Rng, count: usize) -> Vec<Vec<u8>> {
    // exact expansion of lattice / random values in radix 2/8/16, with tails around the half digit
    let db = match rx { 2 => 1, 8 => 3, _ => 4 };
    let mut vals = gen::lattice_small(l);
    for _ in 0..count { vals.push(rng.pattern(l.w)); }
    let mut out = vec![];
    let dig = |v: u32| -> u8 { std::char::from_digit(v, 16).unwrap() as u8 };
    for (vi, raw) in vals.into_iter().enumerate() {
        let n = sval(raw, l.s, l.w);
        let ip: u128 = if l.f >= 128 { 0 } else { n.mag >> l.f };
        let fp: u128 = if l.f == 0 { 0 } else { n.mag & mask(l.f) };
        let mut s = vec![];
        if n.neg { s.push(b'-'); }
        let mut id = vec![];
        let mut t = ip;
        if t == 0 { id.push(b'0'); }
        while t > 0 { id.push(dig((t % rx as u128) as u32)); t /= rx as u128; }
        id.reverse();
        s.extend_from_slice(&id);
        // fractional digits: pad f to a multiple of db
        let nd = (l.f + db - 1) / db;
        let padded = if l.f == 0 { 0 } else { fp << ((nd * db - l.f) % 128) };
        let mut fd = vec![];
        for i in 0..nd {
            let sh = (nd - 1 - i) * db;
            let v = if sh >= 128 { 0 } else { (padded >> sh) & ((1 << db) - 1) };
            fd.push(dig(v as u32));
        }
        let half = dig(rx / 2);
        let tails: Vec<Vec<u8>> = vec![vec![], vec![half], vec![half, b'0', b'0', b'1'], vec![dig(rx / 2 - 1), dig(rx - 1), dig(rx - 1)], vec![half, b'0']];
        let tail = &tails[vi % tails.len()];
        for tl in [&tails[0], tail] {
            let mut x = s.clone();
            x.push(b'.');
            x.extend_from_slice(&fd);
            x.extend_from_slice(tl);
            out.push(x);
        }
        // upper-case hex digits and a "+" sign now and then
        if rx == 16 && vi % 3 == 0 {
            let mut x: Vec<u8> = if n.neg { vec![] } else { vec![b'+'] };
            x.extend(s.iter().map(|b| b.to_ascii_uppercase()));
            x.push(b'.');
            x.extend(fd.iter().map(|b| b.to_ascii_uppercase()));
            out.push(x);
        }
    }
    // integer parts exactly at the range edges: 2^ib - 1, 2^ib, 2^ib + 1 and the same for ib - 1 (signed edge)
    {
        let ib = l.w - l.f;
        let mut edges: Vec<u128> = vec![];
        for e in [ib, ib.saturating_sub(1)] {
            if e >= 1 && e <= 126 {
                let p = 1u128 << e;
                edges.extend_from_slice(&[p - 1, p, p + 1, p + (p >> 1)]);
            }
        }
        for v in edges {
            let mut id = vec![];
            let mut t = v;
            while t > 0 { id.push(dig((t % rx as u128) as u32)); t /= rx as u128; }
            if id.is_empty() { id.push(b'0'); }
            id.reverse();
            for neg in [false, true] {
                for tail in [&b""[..], &b".0"[..], &b"."[..]] {
                    let mut x = vec![];
                    if neg { x.push(b'-'); }
                    x.extend_from_slice(&id);
                    x.extend_from_slice(tail);
                    out.push(x);
                }
                // just below / at the half digit after the edge
                let mut x = vec![];
                if neg { x.push(b'-'); }
                x.extend_from_slice(&id);
                x.push(b'.');
                let nd = ((l.f + db - 1) / db) as usize;
                for _ in 0..nd { x.push(dig(rx - 1)); }
                x.push(dig(rx / 2));
                out.push(x);
            }
        }
    }
    // integer part at / beyond the overflow edge
    let ibits = l.w - l.f;
    for extra in [0u32, 1, 2] {
        let nd = (ibits + extra + db - 1) / db + 1;
        let mut x = vec![];
        for i in 0..nd { x.push(if i == 0 { dig(1) } else { dig(0) }); }
        out.push(x.clone());
        let mut y = vec![b'-'];
        y.extend_from_slice(&x);
        out.push(y);
        let mut z: Vec<u8> = (0..nd).map(|_| dig(rx - 1)).collect();
        z.push(b'.');
        z.push(dig(rx - 1));
        out.push(z);
    }
    out
}

/// Model-derived carry class of the 128-bit decimal-fraction parser (from_str.rs, impl DecToBin for u128): the value of
/// the first 54 digits is built as H * 10^27 + L in two 128-bit limbs; literals whose low limb of H * 10^27 lies just
/// below 2^128 make the addition of L carry into the high limb.  H solves  H * 5^27 = -k (mod 2^101)  for small k.
fn carry_literals() -> Vec<Vec<u8>> {
    let m101: u128 = (1u128 << 101) - 1;
    let five27: u128 = 5u128.pow(27);
    // inverse of 5^27 modulo 2^128 by Newton's iteration (5^27 is odd)
    let mut inv: u128 = 1;
    for _ in 0..8 { inv = inv.wrapping_mul(2u128.wrapping_sub(five27.wrapping_mul(inv))); }
    let ten27: u128 = 10u128.pow(27);
    let mut out = vec![];
    let mut k: u128 = 1;
    while out.len() < 12 && k < 400_000 {
        let h = (k.wrapping_neg().wrapping_mul(inv)) & m101;          // H = -k / 5^27 mod 2^101
        if h < ten27 {
            let hs = format!("{:027}", h);
            for tail in ["999999999999999999999999999", "000000000000001", "500000000000000000000000000", "9999999999999999999999999994999"] {
                let mut s = b"0.".to_vec();
                s.extend_from_slice(hs.as_bytes());
                s.extend_from_slice(tail.as_bytes());
                out.push(s);
            }
        }
        k += 1;
    }
    out
}

fn random_decimals(l: Lay, rng: &mut Rng, count: usize) -> Vec<Vec<u8>> {
    let mut out = vec![];
    let ibits = l.w - l.f;
    for i in 0..count {
        let mut s = vec![];
        match rng.below(6) { 0 => s.push(b'-'), 1 => s.push(b'+'), _ => {} }
        // integer part: near the range edge or small
        let ip: u128 = match rng.below(4) {
            0 => 0,
            1 => if ibits == 0 { 0 } else { rng.u128() & mask(ibits.min(127)) },
            2 => if ibits == 0 { 1 } else { (mask(ibits.min(127)) >> (l.s as u32)).wrapping_add(rng.below(3) as u128).wrapping_sub(1) },
            _ => rng.below(1000) as u128,
        };
        if rng.below(5) != 0 || ip > 0 { for d in dec_of_u128(ip) { s.push(b'0' + d); } }
        let nd = match rng.below(6) { 0 => 0, 1 => 1 + rng.below(4), 2 => 5 + rng.below(15), 3 => 20 + rng.below(40), 4 => l.f as u64 + rng.below(8), _ => if i % 50 == 0 { 200 } else { 3 } } as usize;
        if nd > 0 || rng.below(8) == 0 || s.is_empty() || s.len() == 1 && !s[0].is_ascii_digit() {
            s.push(b'.');
            for _ in 0..nd { s.push(b'0' + rng.below(10) as u8); }
        }
        out.push(s);
    }
    out
}

/// decimal literals with the integer part at the range edges 2^e - 1, 2^e, 2^e + 1 (e = integer bits, and one less: the signed edge),
/// both signs (negative literals into unsigned types included), tails around one half
fn decimal_edges(l: Lay) -> Vec<Vec<u8>> {
    let ib = l.w - l.f;
    let mut out = vec![];
    for e in [ib, ib.saturating_sub(1)] {
        if e > 126 { continue; }
        let p = 1u128 << e;
        for v in [p.wrapping_sub(1), p, p + 1] {
            for neg in [false, true] {
                for tail in [&b""[..], &b".0"[..], &b".5"[..], &b".4999999999999999999999999999999999999999999"[..], &b".50000000000000000000000000000000000000000001"[..]] {
                    let mut x = vec![];
                    if neg { x.push(b'-'); }
                    x.extend_from_slice(format!("{}", if e == 0 && v == u128::MAX { 0 } else { v }).as_bytes());
                    x.extend_from_slice(tail);
                    out.push(x);
                }
            }
        }
    }
    out
}

const MALFORMED: &[&[u8]] = &[b"", b"+", b"-", b".", b"+.", b"-.", b"1..2", b"1.2.3", b"..", b"1-", b"1+", b"+-1", b"--1", b"-+1", b"1 ", b" 1",
    b"1_0", b"0x10", b"1e5", b"1.5e3", b"inf", b"NaN", b"\x00", b"1\x00", b"\t1", b"1\n", b"1,5", b"0b1", b"1.5f", b"a", b"g", b"1.g", b"1.-5", b"1.+5",
    "\u{0661}".as_bytes(), "1\u{00a0}".as_bytes(), "\u{ff11}".as_bytes(), "1.\u{0665}".as_bytes(), "\u{2212}1".as_bytes(), "1\u{2024}5".as_bytes(),
    b"-0", b"+0", b"-0.0", b"0.", b".0", b"-.5", b"+.5", b"00000000000000000000000000000000000000001", b"0.0000000000000000000000000000000000000000",
    b"2", b"8", b"9", b"f", b"F", b"10", b"-1", b"-0.00000000000000000000000000000000000000000001", b"7.", b".7", b"1.8", b"1.4", b"1.c"];

fn run_parse<F: Fx>(c: &mut Ctx) {
    let l = F::lay();
    let mut rng = Rng::new(c.seed ^ ((l.w as u64) << 32) ^ ((l.f as u64) << 16) ^ ((l.s as u64) << 8) ^ 0xC08);
    let k = if c.thorough() { 40 } else if c.light { 0 } else { 4 };
    if c.on("ties") {
        let lits = tie_literals(l, &mut rng, k);
        for s in lits.iter().step_by(if c.light { 7 } else { 1 }) { ev_parse::<F>(c, 10, s); }
    }
    if c.on("dec") && l.w == 128 && l.f > 64 && !c.light {
        for s in carry_literals() { ev_parse::<F>(c, 10, &s); }
    }
    if c.on("dec") {
        let n = if c.thorough() { 600 } else if c.light { 6 } else { 40 };
        for s in random_decimals(l, &mut rng, n) { ev_parse::<F>(c, 10, &s); }
    }
    if c.on("radix") {
        let de = decimal_edges(l);
        for s in de.iter().step_by(if c.light { 7 } else { 1 }) { ev_parse::<F>(c, 10, s); }
        for rx in [2u32, 8, 16] {
            let lits = radix_literals(l, rx, &mut rng, if c.thorough() { 60 } else { 3 });
            let step = if c.light { 9 } else { 1 };
            for s in lits.iter().step_by(step) { ev_parse::<F>(c, rx, s); }
        }
    }
    if c.on("malformed") && !c.light {
        for s in MALFORMED {
            for rx in [10u32, 2, 8, 16] { ev_parse::<F>(c, rx, s); }
        }
    }
}

/// all strings up to length n over a small alphabet, on two layouts, all radices (tokeniser)
fn run_tokens<F: Fx>(c: &mut Ctx) {
    if !c.on("tokens") { return; }
    let alpha: &[u8] = b"+-.0179ax ";
    let maxlen = if c.thorough() { 5 } else { 3 };
    let mut cur: Vec<usize> = vec![];
    loop {
        // next string in length-lexicographic order
        let mut i = cur.len();
        loop {
            if i == 0 { cur = vec![0; cur.len() + 1]; break; }
            i -= 1;
            if cur[i] + 1 < alpha.len() { cur[i] += 1; for j in i + 1..cur.len() { cur[j] = 0; } break; }
        }
        if cur.len() > maxlen { break; }
        let s: Vec<u8> = cur.iter().map(|&i| alpha[i]).collect();
        for rx in [10u32, 2, 8, 16] { ev_parse::<F>(c, rx, &s); }
    }
    // a very long literal: no panic, still correctly rounded
    let mut long = vec![b'1', b'.'];
    let nl = if c.thorough() { 10000 } else { 2500 };
    for i in 0..nl { long.push(b'0' + (i % 10) as u8); }
    ev_parse::<F>(c, 10, &long);
    let mut longi: Vec<u8> = (0..nl / 2).map(|i| b'0' + (i % 7) as u8).collect();
    ev_parse::<F>(c, 8, &longi);
    longi.push(b'.');
    ev_parse::<F>(c, 10, &longi);
}

// ---------------------------------------------------------------- formatting
/// (plus, alt, zero, fill byte (0 = default), align 0 none 1 left 2 center 3 right, uses width)
macro_rules! variants {
    ($v:expr, $w:expr, $p:expr, $suf:literal) => {{
        let v = $v; let w: usize = $w;
        match $p {
            None => vec![
                ((0, 0, 0, 0u8, 0, 1), cat(|| format!(concat!("{:w$", $suf, "}"), v, w = w))),
                ((1, 0, 0, 0, 0, 0), cat(|| format!(concat!("{:+", $suf, "}"), v))),
                ((0, 1, 0, 0, 0, 0), cat(|| format!(concat!("{:#", $suf, "}"), v))),
                ((0, 0, 1, 0, 0, 1), cat(|| format!(concat!("{:0w$", $suf, "}"), v, w = w))),
                ((0, 0, 0, 0, 1, 1), cat(|| format!(concat!("{:<w$", $suf, "}"), v, w = w))),
                ((0, 0, 0, 0, 2, 1), cat(|| format!(concat!("{:^w$", $suf, "}"), v, w = w))),
                ((0, 0, 0, 0, 3, 1), cat(|| format!(concat!("{:>w$", $suf, "}"), v, w = w))),
                ((0, 0, 0, b'*', 1, 1), cat(|| format!(concat!("{:*<w$", $suf, "}"), v, w = w))),
                ((0, 0, 0, b'*', 2, 1), cat(|| format!(concat!("{:*^w$", $suf, "}"), v, w = w))),
                ((1, 0, 0, b'_', 3, 1), cat(|| format!(concat!("{:_>+w$", $suf, "}"), v, w = w))),
                ((1, 1, 1, 0, 0, 1), cat(|| format!(concat!("{:+#0w$", $suf, "}"), v, w = w))),
                ((0, 1, 0, 0, 0, 1), cat(|| format!(concat!("{:#w$", $suf, "}"), v, w = w))),
                ((1, 0, 1, 0, 0, 1), cat(|| format!(concat!("{:+0w$", $suf, "}"), v, w = w))),
                ((0, 1, 1, b'0', 1, 1), cat(|| format!(concat!("{:0<#0w$", $suf, "}"), v, w = w))),
            ],
            Some(p) => { let p: usize = p; vec![
                ((0, 0, 0, 0u8, 0, 1), cat(|| format!(concat!("{:w$.p$", $suf, "}"), v, w = w, p = p))),
                ((1, 0, 0, 0, 0, 0), cat(|| format!(concat!("{:+.p$", $suf, "}"), v, p = p))),
                ((0, 1, 0, 0, 0, 0), cat(|| format!(concat!("{:#.p$", $suf, "}"), v, p = p))),
                ((0, 0, 1, 0, 0, 1), cat(|| format!(concat!("{:0w$.p$", $suf, "}"), v, w = w, p = p))),
                ((0, 0, 0, 0, 1, 1), cat(|| format!(concat!("{:<w$.p$", $suf, "}"), v, w = w, p = p))),
                ((0, 0, 0, 0, 2, 1), cat(|| format!(concat!("{:^w$.p$", $suf, "}"), v, w = w, p = p))),
                ((0, 0, 0, 0, 3, 1), cat(|| format!(concat!("{:>w$.p$", $suf, "}"), v, w = w, p = p))),
                ((0, 0, 0, b'*', 1, 1), cat(|| format!(concat!("{:*<w$.p$", $suf, "}"), v, w = w, p = p))),
                ((0, 0, 0, b'*', 2, 1), cat(|| format!(concat!("{:*^w$.p$", $suf, "}"), v, w = w, p = p))),
                ((1, 0, 0, b'_', 3, 1), cat(|| format!(concat!("{:_>+w$.p$", $suf, "}"), v, w = w, p = p))),
                ((1, 1, 1, 0, 0, 1), cat(|| format!(concat!("{:+#0w$.p$", $suf, "}"), v, w = w, p = p))),
                ((0, 1, 0, 0, 0, 1), cat(|| format!(concat!("{:#w$.p$", $suf, "}"), v, w = w, p = p))),
                ((1, 0, 1, 0, 0, 1), cat(|| format!(concat!("{:+0w$.p$", $suf, "}"), v, w = w, p = p))),
                ((0, 1, 1, b'0', 1, 1), cat(|| format!(concat!("{:0<#0w$.p$", $suf, "}"), v, w = w, p = p))),
            ] }
        }
    }};
}
macro_rules! base {
    ($v:expr, $p:expr, $suf:literal) => {{
        let v = $v;
        match $p {
            None => cat(|| format!(concat!("{:", $suf, "}"), v)),
            Some(p) => { let p: usize = p; cat(|| format!(concat!("{:.p$", $suf, "}"), v, p = p)) }
        }
    }};
}

fn sout(c: &mut Ctx, r: &Result<String, bool>) {
    match r {
        Ok(s) => { c.wr.raw("[0,"); c.wr.bytes(s.as_bytes()); c.wr.raw("]"); }
        Err(_) => c.wr.raw("[2]"),
    }
}

fn ev_fmt<F: Fx>(c: &mut Ctx, raw: u128, kind: &str, p: Option<usize>, w: usize, pick: u64) {
    let v = F::from_raw(raw);
    let (base, vars) = match kind {
        "d" => (base!(v, p, ""), variants!(v, w, p, "")),
        "g" => (base!(v, p, "?"), variants!(v, w, p, "?")),
        "b" => (base!(v, p, "b"), variants!(v, w, p, "b")),
        "o" => (base!(v, p, "o"), variants!(v, w, p, "o")),
        "x" => (base!(v, p, "x"), variants!(v, w, p, "x")),
        _ => (base!(v, p, "X"), variants!(v, w, p, "X")),
    };
    c.wr.raw("{\"k\":\"fmt\",\"pr\":");
    c.wr.raw(if PROFILE == 1 { "1" } else { "0" });
    c.wr.raw(",\"L\":");
    c.wr.lay(F::lay());
    c.wr.raw(",\"a\":");
    c.wr.num(v.val());
    c.wr.raw(&format!(",\"kind\":\"{}\",\"p\":{},\"base\":", kind, p.map(|x| x as i64).unwrap_or(-1)));
    sout(c, &base);
    c.wr.raw(",\"vs\":[");
    let n = vars.len() as u64;
    let mut first = true;
    for (i, (fl, out)) in vars.iter().enumerate() {
        // three variants per event, rotating with the value
        let i = i as u64;
        if !(i == pick % n || i == (pick / 3 + 5) % n || i == (pick / 7 + 9) % n) { continue; }
        if !first { c.wr.raw(","); }
        first = false;
        c.wr.raw(&format!("[{},{},{},{},{},{},", fl.0, fl.1, fl.2, fl.3, fl.4, if fl.5 == 1 { w as i64 } else { -1 }));
        sout(c, out);
        c.wr.raw("]");
    }
    c.wr.raw("]");
    // the default Display output must parse back to the same value (second event kind, real FromStr)
    if kind == "d" && p.is_none() {
        if let Ok(s) = &base {
            let back = o_res(|| s.parse::<F>());
            c.wr.raw(",\"back\":");
            c.wr.out1(&back);
        }
    }
    c.wr.raw("}");
    c.wr.end();
}

/// floor(num / den * 2^128) for num < den < 2^126, by binary long division
fn frac_bits128(num: u128, den: u128) -> u128 {
    let (mut rem, mut q) = (num, 0u128);
    for i in 0..128 {
        rem <<= 1;
        if rem >= den { rem -= den; q |= 1u128 << (127 - i); }
    }
    q
}
/// patterns of layout l next to short decimals (0.1 .. 0.9, 0.25, 3.14, 2.6, ...) and next to the carry class of the
/// 128-bit decimal code (see carry_literals): the values whose shortest decimal form matters most
fn decimal_neighbours(l: Lay) -> Vec<u128> {
    let mut v = vec![];
    let top = if l.s { l.w - 1 } else { l.w };
    let mut add = |ip: u128, fb: u128| {
        // value ip + fb / 2^128 in layout l (truncated), and its two neighbours
        let frac = if l.f == 0 { 0 } else { fb >> (128 - l.f) };
        let int = if l.f >= 128 { 0 } else { ip << l.f };
        let bits = int.wrapping_add(frac);
        if l.f < 128 && (ip >> (top - l.f.min(top)).min(127)) != 0 && l.f < top { return; }
        for d in [0u128, 1, 2] {
            let b = bits.wrapping_add(d);
            if b <= mask(top) { v.push(b); if l.s { v.push(b.wrapping_neg() & mask(l.w)); } }
        }
    };
    for (ip, num, den) in [(0u128, 1u128, 10u128), (0, 2, 10), (0, 3, 10), (0, 4, 10), (0, 6, 10), (0, 7, 10), (0, 8, 10), (0, 9, 10), (0, 1, 4), (0, 5, 100),
                           (3, 14, 100), (2, 6, 10), (1, 7, 10), (0, 1, 3), (0, 999, 1000), (12, 8, 10), (0, 1, 1000), (7, 77, 100)] {
        add(ip, frac_bits128(num, den));
    }
    if l.w == 128 && l.f >= 90 {
        for lit in carry_literals().iter().step_by(4) {
            // the literal is "0." + 27 digits + tail: take the 27-digit prefix H
            let h: u128 = std::str::from_utf8(&lit[2..29]).ok().and_then(|t| t.parse().ok()).unwrap_or(0);
            add(0, frac_bits128(h, 10u128.pow(27)));
        }
    }
    v
}

fn run_fmt<F: Fx>(c: &mut Ctx) {
    if !c.on("fmt") { return; }
    let l = F::lay();
    let mut rng = Rng::new(c.seed ^ ((l.w as u64) << 32) ^ ((l.f as u64) << 16) ^ ((l.s as u64) << 8) ^ 0xC09);
    let vals: Vec<u128> = if c.light {
        let lat = gen::lattice_small(l);
        let mut v: Vec<u128> = lat.iter().step_by(6).cloned().collect();
        v.push(rng.pattern(l.w));
        v.push(rng.pattern(l.w));
        v
    } else if l.w == 8 {
        (0..256).collect()
    } else {
        let mut v = gen::lattice_small(l);
        v.extend(gen::randoms(l, &mut rng, if c.thorough() { 400 } else { 12 }));
        // values just below / above short decimals, and tiny values (all-fraction layouts)
        for k in 0..12u32 { v.push((1u128 << (k * (l.w - 1) / 12)) & mask(l.w)); }
        v
    };
    // neighbours of short decimals / of the carry class: decimal output only (plus one hexadecimal)
    let base_len = vals.len();
    let mut vals = vals;
    if !c.light && l.w > 8 { vals.extend(decimal_neighbours(l)); }
    let dprecs: &[Option<usize>] = if c.light { &[None, Some(2), Some(20)] } else if c.thorough() { &[None, Some(0), Some(1), Some(2), Some(3), Some(5), Some(8), Some(10), Some(20), Some(40), Some(200)] }
                                   else { &[None, Some(0), Some(1), Some(3), Some(8), Some(20)] };
    let rprecs: &[Option<usize>] = if c.light { &[None] } else if c.thorough() { &[None, Some(0), Some(1), Some(2), Some(4), Some(9), Some(130)] } else { &[None, Some(1), Some(3)] };
    for (i, &raw) in vals.iter().enumerate() {
        let pick = rng.next();
        let w = [0usize, 3, 7, 12, 40][(pick % 5) as usize];
        if i >= base_len {
            for p in [None, Some(3), Some(30)] { ev_fmt::<F>(c, raw, "d", p, w, pick); }
            if i % 4 == 0 { ev_fmt::<F>(c, raw, "x", None, w, pick); }
            continue;
        }
        for &p in dprecs { ev_fmt::<F>(c, raw, "d", p, w, pick); }
        ev_fmt::<F>(c, raw, "g", None, w, pick);
        ev_fmt::<F>(c, raw, "g", Some(2), w, pick);
        if i % 16 == 0 { ev_fmt::<F>(c, raw, "d", Some(200), w, pick); }
        for kind in ["b", "o", "x", "X"] {
            for &p in rprecs {
                if l.w > 8 || c.thorough() || (i + kind.len() + p.unwrap_or(7)) % 2 == 0 {
                    ev_fmt::<F>(c, raw, kind, p, w, pick ^ 0x55);
                }
            }
        }
    }
}

fn run<F: Fx>(c: &mut Ctx) {
    run_parse::<F>(c);
    run_fmt::<F>(c);
}
macro_rules! runs { ($c:expr; $f:ident; $($t:ident)*) => { $( $f::<$t>($c); )* } }

fn main() {
    let o = opts();
    silence_panics();
    let mut c = Ctx {
        wr: Wr::new(true, o.out.as_deref()),
        topics: o.topic.split(',').map(|s| s.to_string()).collect(),
        tier: o.tier.clone(),
        seed: o.seed,
        n: o.n as usize,
        light: o.extra.iter().any(|x| x == "--all"),
    };
    let _ = c.n;
    if let Some(path) = &o.replay {
        // literals chosen by the specification (tla/mc/Gen_Ties): {"L":[s,w,f],"rx":r,"s":[bytes]} per line
        let mut table: Vec<(Lay, fn(&mut Ctx, u32, &[u8]))> = vec![];
        macro_rules! reg { ($c:expr; $($t:ident)*) => { $( table.push((<sfv::sf::types::$t as Fx>::lay(), ev_parse::<sfv::sf::types::$t>)); )* } }
        for_all_layouts!(reg!(&mut c;));
        let txt = std::fs::read_to_string(path).expect("read literals");
        for line in txt.lines().filter(|l| !l.trim().is_empty()) {
            let v: serde_json::Value = match serde_json::from_str(line) { Ok(v) => v, Err(_) => continue };
            // only literal records ({"L","rx","s"}; recorded parse events have the same fields)
            if v.get("s").and_then(|s| s.as_array()).is_none() || v.get("rx").is_none() || v.get("steps").is_some() { continue; }
            let l = match v.get("L").and_then(|l| l.as_array()) { Some(l) if l.len() == 3 => l, _ => continue };
            let lay = Lay { s: l[0].as_u64() == Some(1), w: l[1].as_u64().unwrap_or(0) as u32, f: l[2].as_u64().unwrap_or(0) as u32 };
            let rx = v["rx"].as_u64().unwrap_or(10) as u32;
            let bytes: Vec<u8> = v["s"].as_array().map(|a| a.iter().map(|b| b.as_u64().unwrap_or(0) as u8).collect()).unwrap_or_default();
            if let Some((_, f)) = table.iter().find(|(tl, _)| *tl == lay) {
                f(&mut c, rx, &bytes);
            }
        }
        c.wr.flush();
        return;
    }
    if c.light {
        // sweep: every one of the 506 layouts, lightly
        for_all_layouts!(runs!(&mut c; run;));
    } else {
        let on = |w: u32| o.widths.is_empty() || o.widths.contains(&w);
        runs!(&mut c; run_tokens; I4F4 U8F8);
        if on(8) { for_w8!(runs!(&mut c; run;)); }
        if on(16) { for_w16!(runs!(&mut c; run;)); }
        if on(32) { for_w32!(runs!(&mut c; run;)); }
        if on(64) { for_w64!(runs!(&mut c; run;)); }
        if on(128) { for_w128!(runs!(&mut c; run;)); }
    }
    c.wr.flush();
}
