//! Wrapping<F> programs (C18): short random programs over four registers of Wrapping<F>.
//! Every step is logged with its register operands and the resulting bits of the destination;
//! the TLA+ trace specification (tla/vm/Trace.tla, WrapVM part) threads the register state itself.
#![allow(deprecated, unused_imports, unused_macros)]
use sfv::sf::traits::{Fixed, FromFixed, ToFixed};
use sfv::sf::types::*;
use sfv::sf::Wrapping;
use sfv::*;
use std::ops::*;

struct Ctx {
    wr: Wr,
    tier: String,
    seed: u64,
    nprog: usize,
    w8only: bool,
    script: Option<Vec<serde_json::Value>>,
}
const PROFILE: u8 = if cfg!(debug_assertions) { 1 } else { 0 };

use sfv::sf::Wrapping as W;

fn wout<F: Fx>(r: Result<W<F>, bool>) -> Out {
    match r {
        Ok(v) => Out::V(v.0.val()),
        Err(true) => Out::Budget,
        Err(false) => Out::Panic,
    }
}

/// all syntactic forms of a binary operator on Wrapping<F>: 0 val-val, 1 ref-val, 2 val-ref, 3 ref-ref,
/// 4 assign-val, 5 assign-ref
macro_rules! binforms {
    ($form:expr, $a:expr, $b:expr, $op:tt, $opa:tt) => {{
        let (a, b) = ($a, $b);
        match $form {
            0 => cat(|| a $op b),
            1 => cat(|| &a $op b),
            2 => cat(|| a $op &b),
            3 => cat(|| &a $op &b),
            4 => cat(|| { let mut t = a; t $opa b; t }),
            _ => cat(|| { let mut t = a; t $opa &b; t }),
        }
    }};
}
macro_rules! shiftty {
    ($form:expr, $a:expr, $n:expr, $t:ty, $op:tt, $opa:tt) => {{
        let a = $a;
        let n = $n as $t;
        match $form % 6 {
            0 => cat(|| a $op n),
            1 => cat(|| &a $op n),
            2 => cat(|| a $op &n),
            3 => cat(|| { let mut t = a; t $opa n; t }),
            4 => cat(|| { let mut t = a; t $opa &n; t }),
            _ => cat(|| &a $op &n),
        }
    }};
}
macro_rules! shiftall {
    ($ti:expr, $form:expr, $a:expr, $n:expr, $op:tt, $opa:tt) => {
        match $ti {
            0 => shiftty!($form, $a, $n, i8, $op, $opa),
            1 => shiftty!($form, $a, $n, i16, $op, $opa),
            2 => shiftty!($form, $a, $n, i32, $op, $opa),
            3 => shiftty!($form, $a, $n, i64, $op, $opa),
            4 => shiftty!($form, $a, $n, i128, $op, $opa),
            5 => shiftty!($form, $a, $n, isize, $op, $opa),
            6 => shiftty!($form, $a, $n, u8, $op, $opa),
            7 => shiftty!($form, $a, $n, u16, $op, $opa),
            8 => shiftty!($form, $a, $n, u32, $op, $opa),
            9 => shiftty!($form, $a, $n, u64, $op, $opa),
            10 => shiftty!($form, $a, $n, u128, $op, $opa),
            _ => shiftty!($form, $a, $n, usize, $op, $opa),
        }
    };
}
const SHIFT_TY: [(&str, bool, u32); 12] = [
    ("i8", true, 8), ("i16", true, 16), ("i32", true, 32), ("i64", true, 64), ("i128", true, 128), ("isize", true, 64),
    ("u8", false, 8), ("u16", false, 16), ("u32", false, 32), ("u64", false, 64), ("u128", false, 128), ("usize", false, 64),
];

const BINOPS: &[&str] = &["add", "sub", "mul", "div", "rem", "and", "or", "xor", "div_euclid", "rem_euclid"];
const INTOPS: &[&str] = &["mul_int", "div_int", "rem_int", "div_euclid_int", "rem_euclid_int"];
const OBSOPS: &[&str] = &["count_ones", "count_zeros", "leading_zeros", "trailing_zeros", "is_pow2", "is_neg", "int_nbits", "frac_nbits",
    "to_bits", "to_num", "to_num", "display"];
const UNOPS: &[&str] = &["neg", "not", "abs", "signum", "npot", "ceil", "floor", "round", "round_ties_to_even", "round_to_zero", "int", "frac"];

fn do_bin<F: Fx>(op: &str, form: u64, x: W<F>, y: W<F>) -> Result<W<F>, bool> {
    match op {
        "add" => binforms!(form, x, y, +, +=),
        "sub" => binforms!(form, x, y, -, -=),
        "mul" => binforms!(form, x, y, *, *=),
        "div" => binforms!(form, x, y, /, /=),
        "rem" => binforms!(form, x, y, %, %=),
        // the by-reference bit operators need bounds on &F: instantiated per concrete family (Fx::w_bit)
        "and" | "or" | "xor" => F::w_bit(op, form, x, y),
        "div_euclid" => cat(|| x.div_euclid(y)),
        _ => cat(|| x.rem_euclid(y)),
    }
}
fn do_shift<F: Fx>(op: &str, nt: usize, form: u64, x: W<F>, ai: i128) -> Result<W<F>, bool>
where
    for<'a> &'a F: Shl<u32, Output = F> + Shr<u32, Output = F>,
    F: ShlAssign<u32> + ShrAssign<u32>,
{
    if op == "shl" { shiftall!(nt, form, x, ai, <<, <<=) } else { shiftall!(nt, form, x, ai, >>, >>=) }
}
fn do_fold<F: Fx>(op: &str, form: u64, items: &[W<F>]) -> Result<W<F>, bool> {
    match (op, form % 2) {
        ("sum", 0) => cat(|| items.iter().cloned().sum::<W<F>>()),
        ("sum", _) => cat(|| items.iter().sum::<W<F>>()),
        (_, 0) => cat(|| items.iter().cloned().product::<W<F>>()),
        _ => cat(|| items.iter().product::<W<F>>()),
    }
}

fn ev_head(c: &mut Ctx, op: &str, d: usize) {
    c.wr.raw("{\"k\":\"w\",\"op\":\"");
    c.wr.raw(op);
    c.wr.raw("\",\"d\":");
    c.wr.raw(&format!("{}", d + 1));
}

fn program<F>(c: &mut Ctx, rng: &mut Rng, script: Option<&[serde_json::Value]>)
where
    F: FxSign,
    W<F>: Mul<<F as Fixed>::Bits, Output = W<F>> + Div<<F as Fixed>::Bits, Output = W<F>> + Rem<<F as Fixed>::Bits, Output = W<F>>,
    W<F>: MulAssign<<F as Fixed>::Bits> + DivAssign<<F as Fixed>::Bits> + RemAssign<<F as Fixed>::Bits>,
    for<'a> W<F>: Mul<&'a <F as Fixed>::Bits, Output = W<F>> + Div<&'a <F as Fixed>::Bits, Output = W<F>> + Rem<&'a <F as Fixed>::Bits, Output = W<F>>,
    for<'a> W<F>: MulAssign<&'a <F as Fixed>::Bits> + DivAssign<&'a <F as Fixed>::Bits> + RemAssign<&'a <F as Fixed>::Bits>,
    for<'a, 'b> &'a W<F>: Mul<&'b <F as Fixed>::Bits, Output = W<F>> + Div<&'b <F as Fixed>::Bits, Output = W<F>> + Rem<&'b <F as Fixed>::Bits, Output = W<F>>,
    for<'a> &'a W<F>: Mul<<F as Fixed>::Bits, Output = W<F>> + Div<<F as Fixed>::Bits, Output = W<F>> + Rem<<F as Fixed>::Bits, Output = W<F>>,
    for<'a> &'a F: Not<Output = F> + Shl<u32, Output = F> + Shr<u32, Output = F>,
    <F as Fixed>::Bits: Copy,
{
    let l = F::lay();
    let lat = gen::lattice(l, false);
    let mut reg: [W<F>; 4] = [W(F::from_raw(0)); 4];
    c.wr.raw("{\"k\":\"wreset\",\"pr\":");
    c.wr.raw(if PROFILE == 1 { "1" } else { "0" });
    c.wr.raw(",\"L\":");
    c.wr.lay(l);
    c.wr.raw("}");
    c.wr.end();
    let pick_val = |rng: &mut Rng| -> u128 {
        if rng.below(3) == 0 { rng.pattern(l.w) } else { lat[rng.below(lat.len() as u64) as usize] }
    };
    let steps = if let Some(s) = script { s.len() } else { 14 };
    for step in 0..steps {
        // decide the step: from the script (TLC-generated program) or at random
        let (kind, op, d, a, b, form, numraw, nt): (u64, String, usize, usize, usize, u64, u128, usize) = if let Some(s) = script {
            let e = &s[step];
            let g = |k: &str| e.get(k).and_then(|v| v.as_i64()).unwrap_or(0);
            let op = e.get("op").and_then(|v| v.as_str()).unwrap_or("").to_string();
            let kind = if op == "load" { 0 } else if BINOPS.contains(&op.as_str()) { 1 } else if INTOPS.contains(&op.as_str()) { 2 }
                else if op == "shl" || op == "shr" { 3 } else if UNOPS.contains(&op.as_str()) { 4 } else if op == "sum" || op == "product" { 5 }
                else if op == "rotl" || op == "rotr" { 9 } else if OBSOPS.contains(&op.as_str()) { 10 } else if op == "ctor" { 11 } else { 6 };
            // TLC-generated steps carry the operand as "v" (load) or "n" (integer operand / shift amount),
            // Sum/Product as a register list "as"
            let num = if e.get("v").is_some() { g("v") } else { g("n") };
            // wide operands: the raw bit pattern as a decimal string
            let rawv: Option<u128> = e.get("rawv").and_then(|r| r.get("raw")).and_then(|r| r.as_str()).and_then(|r| r.parse::<u128>().ok());
            let (a0, b0) = if let Some(list) = e.get("as").and_then(|v| v.as_array()) {
                (list.get(0).and_then(|v| v.as_i64()).unwrap_or(1), list.get(1).and_then(|v| v.as_i64()).unwrap_or(1))
            } else { (g("a"), g("b")) };
            (kind, op, (g("d") - 1) as usize, (a0 - 1).max(0) as usize, (b0 - 1).max(0) as usize, g("fm") as u64,
             rawv.unwrap_or((num as i128) as u128), g("nt") as usize)
        } else {
            let kind = if step < 3 { [0u64, 0, 11][rng.below(3) as usize] }
                else { [1u64, 1, 1, 1, 2, 3, 4, 4, 5, 6, 0, 8, 9, 10, 10, 11, 7][rng.below(if c.wr.big { 17 } else { 16 }) as usize] };
            let op = match kind {
                1 => BINOPS[rng.below(BINOPS.len() as u64) as usize],
                2 => INTOPS[rng.below(INTOPS.len() as u64) as usize],
                3 => ["shl", "shr"][rng.below(2) as usize],
                4 => UNOPS[rng.below(UNOPS.len() as u64) as usize],
                5 => ["sum", "product"][rng.below(2) as usize],
                6 => "from_int",
                7 => "from_float",
                8 => "from_fix",
                9 => ["rotl", "rotr"][rng.below(2) as usize],
                10 => OBSOPS[rng.below(OBSOPS.len() as u64) as usize],
                11 => "ctor",
                _ => "load",
            };
            let numraw = match kind {
                0 | 2 | 11 => pick_val(rng),
                9 => match rng.below(3) { 0 => rng.below(l.w as u64 * 2 + 2) as u128, 1 => (l.w as u64 * rng.below(4) + rng.below(3)) as u128, _ => (rng.next() as u32) as u128 },
                3 => match rng.below(4) { 0 => rng.below(l.w as u64 * 2 + 2) as u128, 1 => (rng.below(9) as i128 - 4) as u128, 2 => (l.w as i128 * (rng.below(5) as i128 - 2) + rng.below(3) as i128 - 1) as u128, _ => rng.u128() },
                _ => rng.pattern(64),
            };
            (kind, op.to_string(), rng.below(4) as usize, rng.below(4) as usize, rng.below(4) as usize, rng.below(6), numraw, rng.below(12) as usize)
        };
        let op = op.as_str();
        match kind {
            0 => {
                let v = numraw & mask(l.w);
                reg[d] = W(F::from_raw(v));
                c.wr.raw(&format!("{{\"k\":\"wload\",\"d\":{},\"v\":", d + 1));
                c.wr.num(sval(v, l.s, l.w));
                c.wr.raw("}");
                c.wr.end();
            }
            1 => {
                let (x, y) = (reg[a], reg[b]);
                let r = do_bin::<F>(op, form, x, y);
                if let Ok(v) = r { reg[d] = v; }
                ev_head(c, op, d);
                c.wr.raw(&format!(",\"a\":{},\"b\":{},\"fm\":{},\"r\":", a + 1, b + 1, form));
                c.wr.out1(&wout(r));
                c.wr.raw("}");
                c.wr.end();
            }
            2 => {
                let x = reg[a];
                let nraw = numraw & mask(l.w);
                let n = || F::int_from_raw(nraw);
                // all six spellings: value/ref on either side, assigning by value and by reference
                let r = match (op, form % 6) {
                    ("mul_int", 0) => cat(|| x * n()),
                    ("mul_int", 1) => cat(|| &x * n()),
                    ("mul_int", 2) => cat(|| { let mut t = x; t *= n(); t }),
                    ("mul_int", 3) => cat(|| { let k = n(); x * &k }),
                    ("mul_int", 4) => cat(|| { let k = n(); &x * &k }),
                    ("mul_int", _) => cat(|| { let k = n(); let mut t = x; t *= &k; t }),
                    ("div_int", 0) => cat(|| x / n()),
                    ("div_int", 1) => cat(|| &x / n()),
                    ("div_int", 2) => cat(|| { let mut t = x; t /= n(); t }),
                    ("div_int", 3) => cat(|| { let k = n(); x / &k }),
                    ("div_int", 4) => cat(|| { let k = n(); &x / &k }),
                    ("div_int", _) => cat(|| { let k = n(); let mut t = x; t /= &k; t }),
                    ("rem_int", 0) => cat(|| x % n()),
                    ("rem_int", 1) => cat(|| &x % n()),
                    ("rem_int", 2) => cat(|| { let mut t = x; t %= n(); t }),
                    ("rem_int", 3) => cat(|| { let k = n(); x % &k }),
                    ("rem_int", 4) => cat(|| { let k = n(); &x % &k }),
                    ("rem_int", _) => cat(|| { let k = n(); let mut t = x; t %= &k; t }),
                    ("div_euclid_int", _) => cat(|| x.div_euclid_int(n())),
                    _ => cat(|| x.rem_euclid_int(n())),
                };
                if let Ok(v) = r { reg[d] = v; }
                ev_head(c, op, d);
                c.wr.raw(&format!(",\"a\":{},\"fm\":{},\"n\":", a + 1, form));
                c.wr.num(sval(nraw, l.s, l.w));
                c.wr.raw(",\"r\":");
                c.wr.out1(&wout(r));
                c.wr.raw("}");
                c.wr.end();
            }
            3 => {
                let x = reg[a];
                // scripted amounts are i32 unless the script names a type index
                let nt = if let Some(sc) = script { if sc[step].get("nt").is_some() { nt % 12 } else { 2 } } else { nt };
                let (tn, ts, tw) = SHIFT_TY[nt];
                // in the int-domain trace the amount must stay small
                // int-domain traces keep |amount| below 2^16 (the sign is kept for the signed amount types)
                let amt = if c.wr.big { sval(numraw & mask(tw), ts, tw) } else {
                    let v = (numraw as i64) % 65536;
                    let v = if ts { v.clamp(-(1i64 << (tw - 1).min(16)), (1i64 << (tw - 1).min(16)) - 1) } else { v.rem_euclid(1i64 << tw.min(16)) };
                    Num::i(v as i128)
                };
                let ai: i128 = if amt.neg { (amt.mag as i128).wrapping_neg() } else { amt.mag as i128 };
                let r = do_shift::<F>(op, nt, form, x, ai);
                if let Ok(v) = r { reg[d] = v; }
                ev_head(c, op, d);
                c.wr.raw(&format!(",\"a\":{},\"fm\":{},\"nt\":\"{}\",\"n\":", a + 1, form % 6, tn));
                c.wr.num(amt);
                c.wr.raw(",\"r\":");
                c.wr.out1(&wout(r));
                c.wr.raw("}");
                c.wr.end();
            }
            4 => {
                let x = reg[a];
                let r: Option<Result<W<F>, bool>> = match op {
                    "neg" => Some(if form % 2 == 0 { cat(|| -x) } else { cat(|| -&x) }),
                    "not" => Some(if form % 2 == 0 { cat(|| !x) } else { cat(|| !&x) }),
                    "abs" => if l.s { Some(cat(|| F::w_abs(x).unwrap())) } else { None },
                    "signum" => if l.s { Some(cat(|| F::w_signum(x).unwrap())) } else { None },
                    "npot" => if !l.s { Some(cat(|| F::w_npot(x).unwrap())) } else { None },
                    "ceil" => Some(cat(|| x.ceil())),
                    "floor" => Some(cat(|| x.floor())),
                    "round" => Some(cat(|| x.round())),
                    "round_ties_to_even" => Some(cat(|| x.round_ties_to_even())),
                    "round_to_zero" => Some(cat(|| x.round_to_zero())),
                    "int" => Some(cat(|| x.int())),
                    _ => Some(cat(|| x.frac())),
                };
                if let Some(r) = r {
                    if let Ok(v) = r { reg[d] = v; }
                    ev_head(c, op, d);
                    c.wr.raw(&format!(",\"a\":{},\"fm\":{},\"r\":", a + 1, form % 2));
                    c.wr.out1(&wout(r));
                    c.wr.raw("}");
                    c.wr.end();
                }
            }
            5 => {
                // Sum / Product over a list of registers, by value or by reference
                let idx: Vec<usize> = if script.is_some() { vec![a, b] } else {
                    let k = rng.below(5) as usize;
                    (0..k).map(|i| (a + i * (b + 1)) % 4).collect()
                };
                let items: Vec<W<F>> = idx.iter().map(|&i| reg[i]).collect();
                let r = do_fold::<F>(op, form, &items);
                if let Ok(v) = r { reg[d] = v; }
                ev_head(c, op, d);
                c.wr.raw(&format!(",\"fm\":{},\"as\":[", form % 2));
                for (i, x) in idx.iter().enumerate() {
                    if i > 0 { c.wr.raw(","); }
                    c.wr.raw(&format!("{}", x + 1));
                }
                c.wr.raw("],\"r\":");
                c.wr.out1(&wout(r));
                c.wr.raw("}");
                c.wr.end();
            }
            9 => {
                // rotate_left / rotate_right by a u32 amount (any amount; reduced modulo the width)
                let x = reg[a];
                let n = if c.wr.big { numraw as u32 } else { (numraw as u32) % 65536 };
                let r = F::w_rot(op == "rotl", x, n);
                if let Ok(v) = r { reg[d] = v; }
                ev_head(c, op, d);
                c.wr.raw(&format!(",\"a\":{},\"n\":", a + 1));
                c.wr.num(Num::u(n as u128));
                c.wr.raw(",\"r\":");
                c.wr.out1(&wout(r));
                c.wr.raw("}");
                c.wr.end();
            }
            10 => {
                // observers: no register changes
                let x = reg[a];
                // is_power_of_two exists for unsigned, is_negative for signed layouts only
                if (op == "is_pow2" && l.s) || (op == "is_neg" && !l.s) { continue; }
                c.wr.raw(&format!("{{\"k\":\"wobs\",\"op\":\"{}\",\"a\":{}", op, a + 1));
                match op {
                    "to_num" => {
                        let nd = if c.wr.big { W_TO_NUM } else { 8 };
                        let (dl, o) = F::w_to_num((form as usize + nt) % nd, x).unwrap();
                        c.wr.raw(",\"D\":");
                        c.wr.lay(dl);
                        c.wr.raw(",\"r\":");
                        c.wr.out1(&o);
                    }
                    "display" => {
                        let (s1, s2) = F::w_display(x);
                        for (key, list) in [(",\"s\":[", &s1), ("],\"t\":[", &s2)] {
                            c.wr.raw(key);
                            for (i, b) in list.iter().enumerate() { if i > 0 { c.wr.raw(","); } c.wr.bytes(b); }
                        }
                        c.wr.raw("]");
                    }
                    "is_pow2" | "is_neg" => {
                        let o = if op == "is_pow2" { F::w_is_pow2(x) } else { F::w_is_neg(x) };
                        c.wr.raw(",\"r\":");
                        match o { Some(b) => c.wr.out1(&Out::I(b as i64)), None => c.wr.out1(&Out::Absent) }
                    }
                    _ => {
                        c.wr.raw(",\"r\":");
                        c.wr.out1(&F::w_obs(op, x));
                    }
                }
                c.wr.raw("}");
                c.wr.end();
            }
            11 => {
                // a load through one of the constructors
                let cn = ["min", "max", "from_bits", "from", "tuple"][(form as usize + nt) % 5];
                let v = numraw & mask(l.w);
                let r = cat(|| F::w_ctor(cn, v));
                if let Ok(x) = r {
                    reg[d] = x;
                    c.wr.raw(&format!("{{\"k\":\"wload\",\"d\":{},\"c\":\"{}\",\"iv\":", d + 1, cn));
                    c.wr.num(sval(v, l.s, l.w));
                    c.wr.raw(",\"v\":");
                    c.wr.num(x.0.val());
                    c.wr.raw("}");
                    c.wr.end();
                } else {
                    // a constructor never panics: report as a step without a value
                    ev_head(c, "ctor_panic", d);
                    c.wr.raw(",\"r\":[2]}");
                    c.wr.end();
                }
            }
            8 => {
                // Wrapping::from_num of a bool or of another fixed-point type
                let sel = form % 4;
                let (sl, sv, r): (Lay, Num, Result<W<F>, bool>) = match sel {
                    0 => { let b = numraw & 1 == 1; (Lay { s: false, w: 1, f: 0 }, Num::u(b as u128), cat(|| W::<F>::from_num(b))) }
                    1 => { let x = I4F4::from_bits(numraw as i8); (I4F4::lay(), x.val(), cat(|| W::<F>::from_num(x))) }
                    2 if c.wr.big => { let x = I16F16::from_bits(numraw as i32); (I16F16::lay(), x.val(), cat(|| W::<F>::from_num(x))) }
                    3 if c.wr.big && numraw & 2 == 0 => { let x = U0F128::from_bits(numraw | (numraw << 64)); (U0F128::lay(), x.val(), cat(|| W::<F>::from_num(x))) }
                    3 if c.wr.big => { let x = U1F127::from_bits(numraw | (numraw << 64) | (1u128 << 127)); (U1F127::lay(), x.val(), cat(|| W::<F>::from_num(x))) }
                    _ => { let x = U8F0::from_bits(numraw as u8); (U8F0::lay(), x.val(), cat(|| W::<F>::from_num(x))) }
                };
                if let Ok(v) = r { reg[d] = v; }
                ev_head(c, "from_fix", d);
                c.wr.raw(",\"sl\":");
                c.wr.lay(sl);
                c.wr.raw(",\"sv\":");
                c.wr.num(sv);
                c.wr.raw(",\"r\":");
                c.wr.out1(&wout(r));
                c.wr.raw("}");
                c.wr.end();
            }
            7 => {
                // Wrapping::from_num of a float: finite values wrap, non-finite ones panic
                let is32 = form % 2 == 0;
                let mag = (rng.below(1 << 20) as f64) * 2f64.powi(rng.below(160) as i32 - 60) * if rng.below(2) == 0 { 1.0 } else { -1.0 };
                let x: f64 = match rng.below(12) { 0 => f64::NAN, 1 => f64::INFINITY, 2 => f64::NEG_INFINITY, 3 => -0.0, 4 => 0.5, 5 => -1.5, _ => mag };
                let (bits, r): (u64, Result<W<F>, bool>) = if is32 {
                    let y = x as f32;
                    (y.to_bits() as u64, cat(|| W::<F>::from_num(y)))
                } else {
                    (x.to_bits(), cat(|| W::<F>::from_num(x)))
                };
                if let Ok(v) = r { reg[d] = v; }
                ev_head(c, "from_float", d);
                c.wr.raw(&format!(",\"ft\":{},\"fb\":", if is32 { 32 } else { 64 }));
                c.wr.num(Num::u(bits as u128));
                c.wr.raw(",\"r\":");
                c.wr.out1(&wout(r));
                c.wr.raw("}");
                c.wr.end();
            }
            _ => {
                // Wrapping::from_num of a primitive integer (i64 / u64 / i8 / u128 by turns)
                let sel = form % 4;
                // int-domain traces: keep |n| * 2^f below 2^30
                let numraw = if c.wr.big { numraw } else { (((numraw & 0x3fff) as i128) - 0x2000) as u128 };
                let (nl, nv, r): (Lay, Num, Result<W<F>, bool>) = match sel {
                    0 => { let n = numraw as i64; (Lay { s: true, w: 64, f: 0 }, Num::i(n as i128), cat(|| W::<F>::from_num(n))) }
                    1 => { let n = numraw as u64; (Lay { s: false, w: 64, f: 0 }, Num::u(n as u128), cat(|| W::<F>::from_num(n))) }
                    2 => { let n = numraw as i8; (Lay { s: true, w: 8, f: 0 }, Num::i(n as i128), cat(|| W::<F>::from_num(n))) }
                    _ => { let n = (numraw as u16) as u128; (Lay { s: false, w: 128, f: 0 }, Num::u(n), cat(|| W::<F>::from_num(n))) }
                };
                if !c.wr.big && nv.mag >= (1 << 30) {
                    continue;
                }
                if let Ok(v) = r { reg[d] = v; }
                ev_head(c, "from_int", d);
                c.wr.raw(",\"nl\":");
                c.wr.lay(nl);
                c.wr.raw(",\"n\":");
                c.wr.num(nv);
                c.wr.raw(",\"r\":");
                c.wr.out1(&wout(r));
                c.wr.raw("}");
                c.wr.end();
            }
        }
    }
}

fn run<F>(c: &mut Ctx)
where
    F: FxSign,
    W<F>: Mul<<F as Fixed>::Bits, Output = W<F>> + Div<<F as Fixed>::Bits, Output = W<F>> + Rem<<F as Fixed>::Bits, Output = W<F>>,
    W<F>: MulAssign<<F as Fixed>::Bits> + DivAssign<<F as Fixed>::Bits> + RemAssign<<F as Fixed>::Bits>,
    for<'a> W<F>: Mul<&'a <F as Fixed>::Bits, Output = W<F>> + Div<&'a <F as Fixed>::Bits, Output = W<F>> + Rem<&'a <F as Fixed>::Bits, Output = W<F>>,
    for<'a> W<F>: MulAssign<&'a <F as Fixed>::Bits> + DivAssign<&'a <F as Fixed>::Bits> + RemAssign<&'a <F as Fixed>::Bits>,
    for<'a, 'b> &'a W<F>: Mul<&'b <F as Fixed>::Bits, Output = W<F>> + Div<&'b <F as Fixed>::Bits, Output = W<F>> + Rem<&'b <F as Fixed>::Bits, Output = W<F>>,
    for<'a> &'a W<F>: Mul<<F as Fixed>::Bits, Output = W<F>> + Div<<F as Fixed>::Bits, Output = W<F>> + Rem<<F as Fixed>::Bits, Output = W<F>>,
    for<'a> &'a F: Not<Output = F> + Shl<u32, Output = F> + Shr<u32, Output = F>,
    <F as Fixed>::Bits: Copy,
{
    let l = F::lay();
    if c.w8only != (l.w == 8) {
        return;
    }
    if let Some(progs) = c.script.take() {
        // TLC-generated programs: each element is {"L":[s,w,f],"steps":[...]}
        let mut rng = Rng::new(c.seed);
        for p in progs.iter() {
            let pl = p.get("L").and_then(|v| v.as_array()).cloned().unwrap_or_default();
            let g = |i: usize| pl.get(i).and_then(|v| v.as_u64()).unwrap_or(999) as u32;
            if g(0) == l.s as u32 && g(1) == l.w && g(2) == l.f {
                let steps = p.get("steps").and_then(|v| v.as_array()).cloned().unwrap_or_default();
                program::<F>(c, &mut rng, Some(&steps));
            }
        }
        c.script = Some(progs);
        return;
    }
    let mut rng = Rng::new(c.seed ^ ((l.w as u64) << 32) ^ ((l.f as u64) << 16) ^ ((l.s as u64) << 8) ^ 0xC18);
    for _ in 0..c.nprog {
        program::<F>(c, &mut rng, None);
    }
    // systematic three-step programs  r1 = a; r2 = b; r3 = r1 op r2  over the pairwise boundary lattice
    // (all pairs for the 8-bit layouts, a seeded sample of them plus random pairs for the wide ones)
    let lat = gen::lattice_small(l);
    let mut pairs: Vec<(u128, u128)> = vec![];
    for &a in &lat { for &b in &lat { pairs.push((a, b)); } }
    for _ in 0..lat.len() { pairs.push((rng.pattern(l.w), rng.pattern(l.w))); }
    let keep = if l.w == 8 { if c.tier == "thorough" { pairs.len() } else { 300 } } else { c.nprog };
    // systematic two-step programs  r1 = a; r2 = op(r1)  for every unary operation over the boundary lattice
    // (all values for the 8-bit layouts)
    let uvals: Vec<u128> = if l.w == 8 { (0..256).collect() } else { gen::lattice(l, false) };
    for (ui, op) in UNOPS.iter().enumerate() {
        for &a in &uvals {
            let steps = vec![serde_json::json!({"op":"load","d":1,"rawv":{"raw": format!("{}", a)}}),
                             serde_json::json!({"op":*op,"d":2,"a":1,"fm":ui % 2})];
            program::<F>(c, &mut rng, Some(&steps));
        }
    }
    // systematic observer / rotate / constructor programs over the same values
    for (vi, &a) in uvals.iter().enumerate() {
        // quick tier: every second value, and always the values next to 0 / min / max
        let edge = |x: u128| { let m = mask(l.w); let h = 1u128 << (l.w - 1); x <= 2 || m - x <= 2 || (x >= h - 2 && x <= h + 2) };
        if c.tier != "thorough" && (vi + c.seed as usize) % 2 == 1 && !edge(a) { continue; }
        let mut steps = vec![serde_json::json!({"op":"load","d":1,"rawv":{"raw": format!("{}", a)}})];
        for (oi, op) in OBSOPS.iter().enumerate() {
            if *op == "to_num" {
                let nd = if c.wr.big { W_TO_NUM } else { 8 };
                // 8-bit layouts: every destination for every value; wide layouts: destinations by turns
                let dis: Vec<usize> = if l.w == 8 { (0..nd).collect() } else { vec![(vi * 2 + oi) % nd, (vi * 2 + oi + 7) % nd] };
                for di in dis { steps.push(serde_json::json!({"op":"to_num","a":1,"fm":di,"nt":0})); }
            } else {
                steps.push(serde_json::json!({"op":*op,"a":1}));
            }
        }
        for (k, n) in [0u32, 1, l.w - 1, l.w, l.w + 3, 4 * l.w + 1, 65535].iter().enumerate() {
            steps.push(serde_json::json!({"op": if (vi + k) % 2 == 0 { "rotl" } else { "rotr" },"d":2,"a":1,"n":*n}));
        }
        for ci in 0..5 { steps.push(serde_json::json!({"op":"ctor","d":3,"fm":ci,"nt":0,"rawv":{"raw": format!("{}", a)}})); }
        program::<F>(c, &mut rng, Some(&steps));
    }
    // systematic shift programs: every amount type x every spelling x a few amounts (negative, beyond the width)
    for op in ["shl", "shr"] {
        for nt in 0..12u64 {
            for fm in 0..6u64 {
                for (ai, amt) in [-1i64, -3, 1, (l.w + 1) as i64, (l.w / 2) as i64].iter().enumerate() {
                    // unsigned amount types cannot hold a negative amount
                    if *amt < 0 && !SHIFT_TY[nt as usize].1 { continue; }
                    let a = uvals[(nt as usize * 31 + fm as usize * 7 + ai * 3 + 5) % uvals.len()];
                    let steps = vec![serde_json::json!({"op":"load","d":1,"rawv":{"raw": format!("{}", a)}}),
                                     serde_json::json!({"op":op,"d":2,"a":1,"fm":fm,"nt":nt,"n":*amt})];
                    program::<F>(c, &mut rng, Some(&steps));
                }
            }
        }
    }
    for op in BINOPS.iter().chain(INTOPS.iter()) {
        let mut sel = pairs.clone();
        if sel.len() > keep {
            for i in 0..keep { let j = i + rng.below((sel.len() - i) as u64) as usize; sel.swap(i, j); }
            sel.truncate(keep);
        }
        let is_int_op = INTOPS.contains(op);
        if is_int_op {
            // the critical corner pairs always, then a sample of the rest
            sel.truncate(64);
            let m = mask(l.w);
            let (mn, mx) = if l.s { (1u128 << (l.w - 1), (1u128 << (l.w - 1)) - 1) } else { (0, m) };
            let left = [mn, (mn + 1) & m, m, 0, 1, mx, (1u128 << l.f.min(l.w - 1)) & m];
            let right = [m, 0, 1, 2, mn, mx, 3];
            for &a in &left { for &b in &right { sel.push((a, b)); } }
        }
        for (pi, (a, b)) in sel.into_iter().enumerate() {
          // integer operands: every one of the six spellings; Wrapping operands: the spellings by turns
          for fm in (if is_int_op { 0..6u64 } else { (pi as u64 % 6)..(pi as u64 % 6 + 1) }) {
            let sv = |p: u128| -> serde_json::Value {
                let n = sval(p, l.s, l.w);
                // script operands are i64: wide patterns are passed through "raw" strings
                serde_json::json!({"raw": format!("{}", p), "neg": n.neg})
            };
            let is_int = INTOPS.contains(op);
            let steps = if is_int {
                vec![serde_json::json!({"op":"load","d":1,"rawv":sv(a)}), serde_json::json!({"op":*op,"d":3,"a":1,"fm":fm,"rawv":sv(b)})]
            } else {
                vec![serde_json::json!({"op":"load","d":1,"rawv":sv(a)}), serde_json::json!({"op":"load","d":2,"rawv":sv(b)}),
                     serde_json::json!({"op":*op,"d":3,"a":1,"b":2,"fm":fm})]
            };
            program::<F>(c, &mut rng, Some(&steps));
          }
        }
    }
}

macro_rules! runs { ($c:expr; $($t:ident)*) => { $( run::<$t>($c); )* } }

fn main() {
    let o = opts();
    silence_panics();
    let script = o.replay.as_ref().map(|p| {
        let txt = std::fs::read_to_string(p).expect("read script");
        txt.lines().filter(|l| !l.trim().is_empty()).map(|l| serde_json::from_str(l).expect("json")).collect::<Vec<serde_json::Value>>()
    });
    let mut c = Ctx {
        wr: Wr::new(o.big, o.out.as_deref()),
        tier: o.tier.clone(),
        seed: o.seed,
        nprog: if o.n > 0 { o.n as usize } else { 100 },
        w8only: !o.big,
        script,
    };
    let _ = &c.tier;
    for_w8!(runs!(&mut c;));
    runs!(&mut c; I16F16 U16F0 I0F16 I32F32 U32F0 I1F31 I64F64 U0F64 I63F1 I64F0 I128F0 U0F128 I1F127 U64F64 I127F1 U127F1 I0F128 U128F0);
    c.wr.flush();
}
