//! Operand generation: boundary lattices and random patterns (all raw w-bit patterns).
use crate::{mask, Lay, Rng};

fn push(v: &mut Vec<u128>, l: Lay, x: i128, neg_too: bool) {
    // x is a signed quantity in units of ulp; keep if representable as a pattern
    let m = mask(l.w);
    v.push((x as u128) & m);
    if neg_too && l.s {
        v.push((x.wrapping_neg() as u128) & m);
    }
}

/// boundary lattice of a layout.  `dense` adds 2^k +- {0,1} for every k.
pub fn lattice(l: Lay, dense: bool) -> Vec<u128> {
    let m = mask(l.w);
    let mut v: Vec<u128> = vec![];
    let w = l.w;
    let f = l.f;
    for d in 0..3 {
        push(&mut v, l, d, true);
    }
    // around 1/2, 1, 3/2, 2 1/2 in value units
    if f >= 1 && f < 127 {
        let half = 1i128 << (f - 1);
        for k in [1i128, 2, 3, 5] {
            for d in [-1i128, 0, 1] {
                push(&mut v, l, (half.wrapping_mul(k)).wrapping_add(d), true);
            }
        }
    }
    if f == 0 {
        for k in [1i128, 2, 3] {
            push(&mut v, l, k, true);
        }
    }
    // extremes
    let (minp, maxp) = if l.s { (1u128 << (w - 1), (1u128 << (w - 1)) - 1) } else { (0, m) };
    for d in 0..3u128 {
        v.push(minp.wrapping_add(d) & m);
        v.push(maxp.wrapping_sub(d) & m);
    }
    // powers of two
    let step = if dense { 1 } else { (w / 8).max(1) };
    let mut k = 0;
    while k < w {
        for d in [-1i128, 0, 1] {
            let p = (1u128 << k).wrapping_add(d as u128) & m;
            v.push(p);
            if l.s {
                v.push(p.wrapping_neg() & m);
            }
        }
        k += step;
    }
    // limb patterns (halves and quarters of the word)
    for parts in [2u32, 4] {
        let lw = w / parts;
        if lw == 0 { continue; }
        let pats = [0u128, mask(lw), 1u128 << (lw - 1), 1];
        if parts == 2 {
            for a in pats { for b in pats { v.push(((a << lw) | b) & m); } }
        } else {
            for a in [mask(lw), 1u128 << (lw - 1)] {
                for sel in 1..15u32 {
                    let mut x = 0u128;
                    for i in 0..4 { if (sel >> i) & 1 == 1 { x |= a << (lw * i); } }
                    v.push(x & m);
                }
            }
        }
    }
    v.sort_unstable();
    v.dedup();
    v
}

/// a smaller lattice for pairwise products
pub fn lattice_small(l: Lay) -> Vec<u128> {
    let m = mask(l.w);
    let w = l.w;
    let f = l.f;
    let mut v: Vec<u128> = vec![];
    for d in 0..2 { push(&mut v, l, d, true); }
    if f >= 1 && f < 127 {
        let half = 1i128 << (f - 1);
        for k in [1i128, 2, 3] {
            for d in [-1i128, 0, 1] { push(&mut v, l, half.wrapping_mul(k).wrapping_add(d), true); }
        }
    }
    let (minp, maxp) = if l.s { (1u128 << (w - 1), (1u128 << (w - 1)) - 1) } else { (0, m) };
    for d in 0..2u128 { v.push(minp.wrapping_add(d) & m); v.push(maxp.wrapping_sub(d) & m); }
    for k in [w / 4, w / 2 - 1, w / 2, w / 2 + 1, 3 * w / 4, w - 2, w - 1] {
        let p = 1u128 << k;
        v.push(p & m);
        v.push(p.wrapping_sub(1) & m);
        if l.s { v.push(p.wrapping_neg() & m); v.push(p.wrapping_neg().wrapping_add(1) & m); }
    }
    let lw = w / 2;
    v.push((mask(lw) << lw) & m);
    v.push(((1u128 << (lw - 1)) << lw | (1u128 << (lw - 1))) & m);
    v.sort_unstable();
    v.dedup();
    v
}

pub fn randoms(l: Lay, rng: &mut Rng, n: usize) -> Vec<u128> {
    (0..n).map(|_| rng.pattern(l.w)).collect()
}

/// pairs whose quotient is near the overflow boundary, products near overflow, etc.
pub fn correlated_pairs(l: Lay, rng: &mut Rng, n: usize) -> Vec<(u128, u128)> {
    let m = mask(l.w);
    let mut v = vec![];
    for _ in 0..n {
        let a = rng.pattern(l.w);
        let k = rng.below(l.w as u64) as u32;
        let b = match rng.below(4) {
            0 => a.wrapping_add(rng.below(5) as u128).wrapping_sub(2) & m,
            1 => (a >> k).wrapping_add(rng.below(3) as u128) & m,
            2 => (a.wrapping_neg()).wrapping_add(rng.below(3) as u128) & m,
            _ => ((1u128 << k).wrapping_add(rng.below(3) as u128).wrapping_sub(1)) & m,
        };
        v.push((a, b));
    }
    v
}
