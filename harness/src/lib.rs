//! Conformance harness for substrate-fixed: records calls of the real library as ndjson
//! events that TLC validates against the TLA+ specification (tla/Trace.tla).
//! The harness only *records*; it contains no oracle.
#![allow(clippy::all)]
pub use substrate_fixed as sf;
use sf::traits::Fixed;
use sf::types::extra::{LeEqU128, LeEqU16, LeEqU32, LeEqU64, LeEqU8};
use sf::{
    FixedI128, FixedI16, FixedI32, FixedI64, FixedI8, FixedU128, FixedU16, FixedU32, FixedU64,
    FixedU8,
};
use std::fmt::Write as _;
use std::io::Write as _;
use std::panic::{catch_unwind, AssertUnwindSafe};

pub mod gen;
pub mod tables;

/// sign + magnitude integer, enough for every 128-bit pattern read signed or unsigned
#[derive(Clone, Copy, Debug, PartialEq, Eq)]
pub struct Num {
    pub neg: bool,
    pub mag: u128,
}
impl Num {
    pub fn u(mag: u128) -> Num {
        Num { neg: false, mag }
    }
    pub fn i(v: i128) -> Num {
        Num { neg: v < 0, mag: v.unsigned_abs() }
    }
}
/// value of the low `w` bits of `raw` read as a signed / unsigned integer
pub fn sval(raw: u128, signed: bool, w: u32) -> Num {
    let m = if w == 128 { raw } else { raw & ((1u128 << w) - 1) };
    if signed && (m >> (w - 1)) & 1 == 1 {
        let mag = if w == 128 { (!m).wrapping_add(1) } else { (1u128 << w) - m };
        Num { neg: true, mag }
    } else {
        Num { neg: false, mag: m }
    }
}
pub fn mask(w: u32) -> u128 {
    if w == 128 { !0 } else { (1u128 << w) - 1 }
}

/// Harness view of a fixed-point type.
pub trait Fx: Fixed + 'static {
    const S: bool;
    const W: u32;
    fn from_raw(r: u128) -> Self;
    fn raw(self) -> u128;
    fn int_from_raw(r: u128) -> <Self as Fixed>::Bits;
    fn int_raw(b: <Self as Fixed>::Bits) -> u128;
    fn f() -> u32 {
        Self::frac_nbits()
    }
    fn val(self) -> Num {
        sval(self.raw(), Self::S, Self::W)
    }
    fn ival(b: <Self as Fixed>::Bits) -> Num {
        sval(Self::int_raw(b), Self::S, Self::W)
    }
    fn lay() -> Lay {
        Lay { s: Self::S, w: Self::W, f: Self::frac_nbits() }
    }
}
macro_rules! impl_fx {
    ($Fixed:ident, $LeEq:ident, $Inner:ty, $signed:expr, $w:expr) => {
        impl<Fr: $LeEq + 'static> Fx for $Fixed<Fr> {
            const S: bool = $signed;
            const W: u32 = $w;
            #[inline]
            fn from_raw(r: u128) -> Self {
                Self::from_bits(r as $Inner)
            }
            #[inline]
            fn raw(self) -> u128 {
                (self.to_bits() as u128) & mask($w)
            }
            #[inline]
            fn int_from_raw(r: u128) -> $Inner {
                r as $Inner
            }
            #[inline]
            fn int_raw(b: $Inner) -> u128 {
                (b as u128) & mask($w)
            }
        }
    };
}
impl_fx!(FixedI8, LeEqU8, i8, true, 8);
impl_fx!(FixedU8, LeEqU8, u8, false, 8);
impl_fx!(FixedI16, LeEqU16, i16, true, 16);
impl_fx!(FixedU16, LeEqU16, u16, false, 16);
impl_fx!(FixedI32, LeEqU32, i32, true, 32);
impl_fx!(FixedU32, LeEqU32, u32, false, 32);
impl_fx!(FixedI64, LeEqU64, i64, true, 64);
impl_fx!(FixedU64, LeEqU64, u64, false, 64);
impl_fx!(FixedI128, LeEqU128, i128, true, 128);
impl_fx!(FixedU128, LeEqU128, u128, false, 128);

/// sign-specific methods, None when the API does not provide them for this signedness
pub trait FxSign: Fx {
    fn w_abs(_x: sf::Wrapping<Self>) -> Option<sf::Wrapping<Self>> { None }
    fn w_signum(_x: sf::Wrapping<Self>) -> Option<sf::Wrapping<Self>> { None }
    fn w_npot(_x: sf::Wrapping<Self>) -> Option<sf::Wrapping<Self>> { None }
    fn w_is_neg(_x: sf::Wrapping<Self>) -> Option<bool> { None }
    fn w_is_pow2(_x: sf::Wrapping<Self>) -> Option<bool> { None }
    fn p_neg(_x: Self) -> Option<Self> { None }
    fn p_abs(_x: Self) -> Option<Self> { None }
    fn p_signum(_x: Self) -> Option<Self> { None }
    fn p_npot(_x: Self) -> Option<Self> { None }
    fn p_cnpot(_x: Self) -> Option<Option<Self>> { None }
    fn p_is_pow2(_x: Self) -> Option<bool> { None }
    fn p_is_neg(_x: Self) -> Option<bool> { None }
    fn p_is_pos(_x: Self) -> Option<bool> { None }
}
macro_rules! impl_sign {
    (signed $Fixed:ident, $LeEq:ident) => {
        impl<Fr: $LeEq + 'static> FxSign for $Fixed<Fr> {
            fn w_abs(x: sf::Wrapping<Self>) -> Option<sf::Wrapping<Self>> { Some(x.abs()) }
            fn w_signum(x: sf::Wrapping<Self>) -> Option<sf::Wrapping<Self>> { Some(x.signum()) }
            fn w_is_neg(x: sf::Wrapping<Self>) -> Option<bool> { Some(x.is_negative()) }
            fn p_neg(x: Self) -> Option<Self> { Some(-x) }
            fn p_abs(x: Self) -> Option<Self> { Some(x.abs()) }
            fn p_signum(x: Self) -> Option<Self> { Some(x.signum()) }
            fn p_is_neg(x: Self) -> Option<bool> { Some(x.is_negative()) }
            fn p_is_pos(x: Self) -> Option<bool> { Some(x.is_positive()) }
        }
    };
    (unsigned $Fixed:ident, $LeEq:ident) => {
        impl<Fr: $LeEq + 'static> FxSign for $Fixed<Fr> {
            fn w_npot(x: sf::Wrapping<Self>) -> Option<sf::Wrapping<Self>> { Some(x.next_power_of_two()) }
            fn w_is_pow2(x: sf::Wrapping<Self>) -> Option<bool> { Some(x.is_power_of_two()) }
            fn p_npot(x: Self) -> Option<Self> { Some(x.next_power_of_two()) }
            fn p_cnpot(x: Self) -> Option<Option<Self>> { Some(x.checked_next_power_of_two()) }
            fn p_is_pow2(x: Self) -> Option<bool> { Some(x.is_power_of_two()) }
        }
    };
}
impl_sign!(signed FixedI8, LeEqU8);
impl_sign!(signed FixedI16, LeEqU16);
impl_sign!(signed FixedI32, LeEqU32);
impl_sign!(signed FixedI64, LeEqU64);
impl_sign!(signed FixedI128, LeEqU128);
impl_sign!(unsigned FixedU8, LeEqU8);
impl_sign!(unsigned FixedU16, LeEqU16);
impl_sign!(unsigned FixedU32, LeEqU32);
impl_sign!(unsigned FixedU64, LeEqU64);
impl_sign!(unsigned FixedU128, LeEqU128);

#[derive(Clone, Copy, Debug, PartialEq, Eq, Hash)]
pub struct Lay {
    pub s: bool,
    pub w: u32,
    pub f: u32,
}
impl Lay {
    pub fn name(&self) -> String {
        format!("{}{}F{}", if self.s { 'I' } else { 'U' }, self.w - self.f, self.f)
    }
}

/// Outcome of one call.  kind codes in the trace: 0 value, 1 none/err, 2 panic, 3 budget, 9 absent
#[derive(Clone, Debug)]
pub enum Out {
    V(Num),
    P(Num, bool),
    None,
    Panic,
    Budget,
    Absent,
    B(bool),
    I(i64),
    Bytes(Vec<u8>),
}

pub fn silence_panics() {
    std::panic::set_hook(Box::new(|_| {}));
}

pub fn cat<T>(f: impl FnOnce() -> T) -> Result<T, bool> {
    match catch_unwind(AssertUnwindSafe(f)) {
        Ok(v) => Ok(v),
        Err(p) => {
            let msg = if let Some(s) = p.downcast_ref::<&str>() {
                s.to_string()
            } else if let Some(s) = p.downcast_ref::<String>() {
                s.clone()
            } else {
                String::new()
            };
            Err(msg.contains("substrate_fixed_verif: iteration budget exceeded"))
        }
    }
}
fn perr(b: bool) -> Out {
    if b { Out::Budget } else { Out::Panic }
}
pub fn o_val<F: Fx>(f: impl FnOnce() -> F) -> Out {
    match cat(f) {
        Ok(v) => Out::V(v.val()),
        Err(b) => perr(b),
    }
}
pub fn o_opt<F: Fx>(f: impl FnOnce() -> Option<F>) -> Out {
    match cat(f) {
        Ok(Some(v)) => Out::V(v.val()),
        Ok(None) => Out::None,
        Err(b) => perr(b),
    }
}
pub fn o_res<F: Fx, E>(f: impl FnOnce() -> Result<F, E>) -> Out {
    match cat(f) {
        Ok(Ok(v)) => Out::V(v.val()),
        Ok(Err(_)) => Out::None,
        Err(b) => perr(b),
    }
}
pub fn o_pair<F: Fx>(f: impl FnOnce() -> (F, bool)) -> Out {
    match cat(f) {
        Ok((v, o)) => Out::P(v.val(), o),
        Err(b) => perr(b),
    }
}
pub fn o_respair<F: Fx, E>(f: impl FnOnce() -> Result<(F, bool), E>) -> Out {
    match cat(f) {
        Ok(Ok((v, o))) => Out::P(v.val(), o),
        Ok(Err(_)) => Out::None,
        Err(b) => perr(b),
    }
}
pub fn o_bool(f: impl FnOnce() -> bool) -> Out {
    match cat(f) {
        Ok(v) => Out::B(v),
        Err(b) => perr(b),
    }
}
pub fn o_num(f: impl FnOnce() -> Num) -> Out {
    match cat(f) {
        Ok(v) => Out::V(v),
        Err(b) => perr(b),
    }
}
pub fn o_optnum(f: impl FnOnce() -> Option<Num>) -> Out {
    match cat(f) {
        Ok(Some(v)) => Out::V(v),
        Ok(None) => Out::None,
        Err(b) => perr(b),
    }
}
pub fn o_numpair(f: impl FnOnce() -> (Num, bool)) -> Out {
    match cat(f) {
        Ok((v, o)) => Out::P(v, o),
        Err(b) => perr(b),
    }
}

/// xorshift64* PRNG (deterministic from VERIF_SEED)
#[derive(Clone)]
pub struct Rng(pub u64);
impl Rng {
    pub fn new(seed: u64) -> Rng {
        Rng(seed.wrapping_mul(0x9E3779B97F4A7C15) ^ 0xD1B54A32D192ED03 | 1)
    }
    pub fn next(&mut self) -> u64 {
        let mut x = self.0;
        x ^= x >> 12;
        x ^= x << 25;
        x ^= x >> 27;
        self.0 = x;
        x.wrapping_mul(0x2545F4914F6CDD1D)
    }
    pub fn u128(&mut self) -> u128 {
        ((self.next() as u128) << 64) | self.next() as u128
    }
    pub fn below(&mut self, n: u64) -> u64 {
        self.next() % n.max(1)
    }
    /// random pattern of width w: mixture of uniform, uniform bit length, sparse, dense
    pub fn pattern(&mut self, w: u32) -> u128 {
        let m = mask(w);
        match self.below(6) {
            0 => self.u128() & m,
            1 | 2 => {
                let len = self.below(w as u64 + 1) as u32;
                let v = if len == 0 { 0 } else { (self.u128() & mask(len)) | (1u128 << (len - 1)) };
                if self.below(2) == 0 { v & m } else { v.wrapping_neg() & m }
            }
            3 => {
                let mut v = 0u128;
                for _ in 0..self.below(4) + 1 {
                    v |= 1u128 << self.below(w as u64);
                }
                if self.below(2) == 0 { v } else { !v & m }
            }
            4 => {
                // all-ones / single-bit limbs
                let l = (w / 2).max(1);
                let lo = match self.below(4) { 0 => 0, 1 => mask(l), 2 => 1u128 << (l - 1), _ => self.u128() & mask(l) };
                let hi = match self.below(4) { 0 => 0, 1 => mask(l), 2 => 1u128 << (l - 1), _ => self.u128() & mask(l) };
                ((hi << l) | lo) & m
            }
            _ => {
                let k = self.below(w as u64) as u32;
                let d = self.below(5) as u128;
                let v = (1u128 << k).wrapping_add(d).wrapping_sub(2);
                if self.below(2) == 0 { v & m } else { v.wrapping_neg() & m }
            }
        }
    }
}

/// Event writer.  `big` selects the number encoding: false = plain JSON integers (8-bit
/// layouts, "int" domain), true = [neg, limbs base 2^15...] ("big" domain).
pub struct Wr {
    pub big: bool,
    pub buf: String,
    pub out: std::io::BufWriter<Box<dyn std::io::Write>>,
    pub n: u64,
}
impl Wr {
    pub fn new(big: bool, path: Option<&str>) -> Wr {
        let w: Box<dyn std::io::Write> = match path {
            Some(p) => Box::new(std::fs::File::create(p).expect("create out")),
            None => Box::new(std::io::stdout()),
        };
        Wr { big, buf: String::with_capacity(1 << 16), out: std::io::BufWriter::with_capacity(1 << 20, w), n: 0 }
    }
    pub fn num(&mut self, n: Num) {
        if self.big {
            let _ = write!(self.buf, "[{}", if n.neg && n.mag != 0 { 1 } else { 0 });
            let mut m = n.mag;
            while m != 0 {
                let _ = write!(self.buf, ",{}", (m & 0x7fff) as u32);
                m >>= 15;
            }
            self.buf.push(']');
        } else {
            assert!(n.mag < (1 << 30), "int-domain number too large");
            if n.neg && n.mag != 0 {
                self.buf.push('-');
            }
            let _ = write!(self.buf, "{}", n.mag);
        }
    }
    pub fn lay(&mut self, l: Lay) {
        let _ = write!(self.buf, "[{},{},{}]", l.s as u8, l.w, l.f);
    }
    pub fn out1(&mut self, o: &Out) {
        match o {
            Out::V(n) => {
                self.buf.push_str("[0,");
                self.num(*n);
                self.buf.push(']');
            }
            Out::P(n, f) => {
                self.buf.push_str("[0,");
                self.num(*n);
                let _ = write!(self.buf, ",{}]", *f as u8);
            }
            Out::None => self.buf.push_str("[1]"),
            Out::Panic => self.buf.push_str("[2]"),
            Out::Budget => self.buf.push_str("[3]"),
            Out::Absent => self.buf.push_str("[9]"),
            Out::B(b) => {
                let _ = write!(self.buf, "[0,{}]", *b as u8);
            }
            Out::I(i) => {
                let _ = write!(self.buf, "[0,{}]", i);
            }
            Out::Bytes(bs) => {
                self.buf.push_str("[0,[");
                for (i, b) in bs.iter().enumerate() {
                    if i > 0 {
                        self.buf.push(',');
                    }
                    let _ = write!(self.buf, "{}", b);
                }
                self.buf.push_str("]]");
            }
        }
    }
    pub fn outs(&mut self, os: &[Out]) {
        self.buf.push('[');
        for (i, o) in os.iter().enumerate() {
            if i > 0 {
                self.buf.push(',');
            }
            self.out1(o);
        }
        self.buf.push(']');
    }
    pub fn bytes(&mut self, bs: &[u8]) {
        self.buf.push('[');
        for (i, b) in bs.iter().enumerate() {
            if i > 0 {
                self.buf.push(',');
            }
            let _ = write!(self.buf, "{}", b);
        }
        self.buf.push(']');
    }
    pub fn raw(&mut self, s: &str) {
        self.buf.push_str(s);
    }
    pub fn end(&mut self) {
        self.buf.push('\n');
        self.n += 1;
        if self.buf.len() > (1 << 15) {
            self.flush();
        }
    }
    pub fn flush(&mut self) {
        self.out.write_all(self.buf.as_bytes()).expect("write");
        self.buf.clear();
        self.out.flush().expect("flush");
    }
}

/// command-line options shared by the bins
pub struct Opts {
    pub topic: String,
    pub tier: String,
    pub seed: u64,
    pub out: Option<String>,
    pub big: bool,
    pub widths: Vec<u32>,
    pub n: u64,
    pub replay: Option<String>,
    pub extra: Vec<String>,
}
pub fn opts() -> Opts {
    let mut o = Opts {
        topic: String::new(),
        tier: "quick".into(),
        seed: 1,
        out: None,
        big: false,
        widths: vec![],
        n: 0,
        replay: None,
        extra: vec![],
    };
    let a: Vec<String> = std::env::args().collect();
    let mut i = 1;
    while i < a.len() {
        let v = |i: usize| a.get(i + 1).cloned().unwrap_or_default();
        match a[i].as_str() {
            "--topic" => { o.topic = v(i); i += 1 }
            "--tier" => { o.tier = v(i); i += 1 }
            "--seed" => { o.seed = v(i).parse().unwrap_or(1); i += 1 }
            "--out" => { o.out = Some(v(i)); i += 1 }
            "--big" => o.big = true,
            "--widths" => { o.widths = v(i).split(',').filter_map(|x| x.parse().ok()).collect(); i += 1 }
            "--n" => { o.n = v(i).parse().unwrap_or(0); i += 1 }
            "--replay" => { o.replay = Some(v(i)); i += 1 }
            x => o.extra.push(x.to_string()),
        }
        i += 1;
    }
    o
}

/// Layout table entry: a generic function instantiated at one layout.
pub struct Entry<C> {
    pub lay: Lay,
    pub run: fn(&mut C),
}
#[macro_export]
macro_rules! lay_table {
    ($ctx:ty; $f:ident; $($t:ident)*) => {
        vec![$($crate::Entry::<$ctx> { lay: <$crate::sf::types::$t as $crate::Fx>::lay(), run: $f::<$crate::sf::types::$t> }),*]
    };
}
