//! generated layout lists (see DESIGN.md 4.1)
#[macro_export]
macro_rules! for_w8 { ($m:ident!($($pre:tt)*)) => { $m!($($pre)* I8F0 I7F1 I6F2 I5F3 I4F4 I3F5 I2F6 I1F7 I0F8 U8F0 U7F1 U6F2 U5F3 U4F4 U3F5 U2F6 U1F7 U0F8) } }

#[macro_export]
macro_rules! for_w8s { ($m:ident!($($pre:tt)*)) => { $m!($($pre)* I8F0 I7F1 I6F2 I5F3 I4F4 I3F5 I2F6 I1F7 I0F8) } }

#[macro_export]
macro_rules! for_w16 { ($m:ident!($($pre:tt)*)) => { $m!($($pre)* I16F0 I15F1 I14F2 I12F4 I9F7 I8F8 I7F9 I4F12 I2F14 I1F15 I0F16 U16F0 U15F1 U14F2 U12F4 U9F7 U8F8 U7F9 U4F12 U2F14 U1F15 U0F16) } }

#[macro_export]
macro_rules! for_w16s { ($m:ident!($($pre:tt)*)) => { $m!($($pre)* I16F0 I15F1 I14F2 I12F4 I9F7 I8F8 I7F9 I4F12 I2F14 I1F15 I0F16) } }

#[macro_export]
macro_rules! for_w32 { ($m:ident!($($pre:tt)*)) => { $m!($($pre)* I32F0 I31F1 I30F2 I24F8 I17F15 I16F16 I15F17 I8F24 I2F30 I1F31 I0F32 U32F0 U31F1 U30F2 U24F8 U17F15 U16F16 U15F17 U8F24 U2F30 U1F31 U0F32) } }

#[macro_export]
macro_rules! for_w32s { ($m:ident!($($pre:tt)*)) => { $m!($($pre)* I32F0 I31F1 I30F2 I24F8 I17F15 I16F16 I15F17 I8F24 I2F30 I1F31 I0F32) } }

#[macro_export]
macro_rules! for_w64 { ($m:ident!($($pre:tt)*)) => { $m!($($pre)* I64F0 I63F1 I62F2 I48F16 I33F31 I32F32 I31F33 I16F48 I2F62 I1F63 I0F64 U64F0 U63F1 U62F2 U48F16 U33F31 U32F32 U31F33 U16F48 U2F62 U1F63 U0F64) } }

#[macro_export]
macro_rules! for_w64s { ($m:ident!($($pre:tt)*)) => { $m!($($pre)* I64F0 I63F1 I62F2 I48F16 I33F31 I32F32 I31F33 I16F48 I2F62 I1F63 I0F64) } }

#[macro_export]
macro_rules! for_w128 { ($m:ident!($($pre:tt)*)) => { $m!($($pre)* I128F0 I127F1 I126F2 I96F32 I65F63 I64F64 I63F65 I32F96 I2F126 I1F127 I0F128 U128F0 U127F1 U126F2 U96F32 U65F63 U64F64 U63F65 U32F96 U2F126 U1F127 U0F128) } }

#[macro_export]
macro_rules! for_w128s { ($m:ident!($($pre:tt)*)) => { $m!($($pre)* I128F0 I127F1 I126F2 I96F32 I65F63 I64F64 I63F65 I32F96 I2F126 I1F127 I0F128) } }

#[macro_export]
macro_rules! for_math_s { ($m:ident!($($pre:tt)*)) => { $m!($($pre)* I9F23 I9F55 I9F119 I16F48 I32F32 I41F23 I40F88 I64F64 I96F32 I105F23) } }

#[macro_export]
macro_rules! for_math_u { ($m:ident!($($pre:tt)*)) => { $m!($($pre)* U9F23 U32F32 U64F64 U96F32) } }
