//! Growth check G03: the crate's optional features.
//!   "f16": half::f16 and half::bf16 as conversion sources / targets and comparison partners
//!          (events f2x / x2f / cmpf with ft = 16 for binary16 and ft = 17 for bfloat16);
//!   "az":  Cast / CheckedCast / SaturatingCast / WrappingCast / OverflowingCast (events conv, f2x, x2f judged exactly as
//!          the to_num / from_num family) and StaticCast (event "static": Some only where it holds for the whole type).
//! The 16-bit float formats are small enough to be enumerated: topic f2xall sends EVERY f16 and bf16 bit pattern into a
//! list of layouts, topic x2fall sends EVERY value of every 8-bit layout and of four 16-bit layouts to both formats.
#![allow(deprecated, unused_imports, unused_macros, dead_code)]
use az::{Cast, CheckedCast, OverflowingCast, SaturatingCast, StaticCast, WrappingCast};
use half::{bf16, f16};
use sfv::sf::traits::{Fixed, FromFixed, LossyFrom, ToFixed};
use sfv::sf::types::*;
use sfv::*;
use std::cmp::Ordering;
use std::collections::hash_map::DefaultHasher;
use std::hash::{Hash, Hasher};

include!("../../../harness/src/bin/conv_events.rs");

impl PFloat for f16 {
    const BITS: u32 = 16;
    const EBITS: u32 = 5;
    const MBITS: u32 = 10;
    const FT: &'static str = "16";
    fn from_b(b: u64) -> f16 { f16::from_bits(b as u16) }
    fn b(self) -> u64 { self.to_bits() as u64 }
    fn near(x: f64) -> u64 { f16::from_f64(x).to_bits() as u64 }
}
impl PFloat for bf16 {
    const BITS: u32 = 16;
    const EBITS: u32 = 8;
    const MBITS: u32 = 7;
    const FT: &'static str = "17";
    fn from_b(b: u64) -> bf16 { bf16::from_bits(b as u16) }
    fn b(self) -> u64 { self.to_bits() as u64 }
    fn near(x: f64) -> u64 { bf16::from_f64(x).to_bits() as u64 }
}

// ------------------------------------------------------------------ f16 / bf16
fn sampled16<A>(c: &mut Ctx)
where
    A: Fx + PartialOrd<f16> + PartialOrd<bf16>,
    f16: PartialOrd<A> + LossyFrom<A>,
    bf16: PartialOrd<A> + LossyFrom<A>,
{
    floats::<A, f16>(c);
    floats::<A, bf16>(c);
}
fn f2x_all<A: Fx>(c: &mut Ctx) {
    for fb in 0..=0xffffu64 {
        ev_f2x::<A, f16>(c, fb);
        ev_f2x::<A, bf16>(c, fb);
    }
}
fn x2f_all<A>(c: &mut Ctx)
where
    A: Fx,
    f16: LossyFrom<A>,
    bf16: LossyFrom<A>,
{
    for ar in 0..(1u128 << A::W) {
        ev_x2f::<A, f16>(c, ar);
        ev_x2f::<A, bf16>(c, ar);
    }
}

// ------------------------------------------------------------------ az
trait AzAll<B>: Cast<B> + CheckedCast<B> + SaturatingCast<B> + WrappingCast<B> + OverflowingCast<B> {}
impl<A, B> AzAll<B> for A where A: Cast<B> + CheckedCast<B> + SaturatingCast<B> + WrappingCast<B> + OverflowingCast<B> {}

fn az_fix<A, B>(c: &mut Ctx)
where
    A: Fx + AzAll<B>,
    B: Fx,
{
    let (la, lb) = (A::lay(), B::lay());
    let mut vals = single_values(c, la, 21);
    for br in gen::lattice(lb, false) {
        vals.extend(matched(lb, br, la));
    }
    for ar in budget(vals, kq(c, 60, 1500), c.seed ^ 0xA2 ^ ((la.w as u64) << 40) ^ ((la.f as u64) << 24) ^ ((lb.w as u64) << 12) ^ lb.f as u64) {
        let a = A::from_raw(ar);
        head(c, "conv");
        c.wr.raw(",\"az\":1,\"A\":");
        c.wr.lay(la);
        c.wr.raw(",\"B\":");
        c.wr.lay(lb);
        c.wr.raw(",\"a\":");
        c.wr.num(a.val());
        c.wr.raw(",\"o\":");
        c.wr.outs(&[
            o_val(|| Cast::<B>::cast(a)),
            o_opt(|| CheckedCast::<B>::checked_cast(a)),
            o_val(|| SaturatingCast::<B>::saturating_cast(a)),
            o_val(|| WrappingCast::<B>::wrapping_cast(a)),
            o_pair(|| OverflowingCast::<B>::overflowing_cast(a)),
        ]);
        // the free functions of the az crate
        c.wr.raw(",\"o2\":");
        c.wr.outs(&[
            o_val(|| az::cast::<A, B>(a)),
            o_opt(|| az::checked_cast::<A, B>(a)),
            o_val(|| az::saturating_cast::<A, B>(a)),
            o_val(|| az::wrapping_cast::<A, B>(a)),
            o_pair(|| az::overflowing_cast::<A, B>(a)),
        ]);
        c.wr.raw("}");
        c.wr.end();
    }
}
fn az_int<A, I>(c: &mut Ctx)
where
    A: Fx + AzAll<I>,
    I: PInt + AzAll<A>,
{
    let (la, li) = (A::lay(), I::lay());
    for ar in budget(single_values(c, la, 22), kq(c, 40, 1000), c.seed ^ 0xA3 ^ li.w as u64 ^ ((la.f as u64) << 8)) {
        let a = A::from_raw(ar);
        head(c, "conv");
        c.wr.raw(",\"az\":1,\"it\":\"");
        c.wr.raw(I::NAME);
        c.wr.raw("\",\"A\":");
        c.wr.lay(la);
        c.wr.raw(",\"B\":");
        c.wr.lay(li);
        c.wr.raw(",\"a\":");
        c.wr.num(a.val());
        let forms = |_: ()| [
            pi_val(|| Cast::<I>::cast(a)),
            pi_opt(|| CheckedCast::<I>::checked_cast(a)),
            pi_val(|| SaturatingCast::<I>::saturating_cast(a)),
            pi_val(|| WrappingCast::<I>::wrapping_cast(a)),
            pi_pair(|| OverflowingCast::<I>::overflowing_cast(a)),
        ];
        c.wr.raw(",\"o\":");
        c.wr.outs(&forms(()));
        c.wr.raw(",\"o2\":");
        c.wr.outs(&forms(()));
        c.wr.raw("}");
        c.wr.end();
    }
    let mut ns = single_values(c, li, 23);
    for ar in gen::lattice(la, false) {
        ns.extend(matched(la, ar, li));
    }
    for nr in budget(ns, kq(c, 50, 1500), c.seed ^ 0xA4 ^ li.w as u64 ^ ((la.f as u64) << 8) ^ ((la.w as u64) << 20)) {
        let n = I::from_raw(nr);
        head(c, "conv");
        c.wr.raw(",\"az\":1,\"it\":\"");
        c.wr.raw(I::NAME);
        c.wr.raw("\",\"A\":");
        c.wr.lay(li);
        c.wr.raw(",\"B\":");
        c.wr.lay(la);
        c.wr.raw(",\"a\":");
        c.wr.num(n.val());
        let forms = |_: ()| [
            o_val(|| Cast::<A>::cast(n)),
            o_opt(|| CheckedCast::<A>::checked_cast(n)),
            o_val(|| SaturatingCast::<A>::saturating_cast(n)),
            o_val(|| WrappingCast::<A>::wrapping_cast(n)),
            o_pair(|| OverflowingCast::<A>::overflowing_cast(n)),
        ];
        c.wr.raw(",\"o\":");
        c.wr.outs(&forms(()));
        c.wr.raw(",\"o2\":");
        c.wr.outs(&forms(()));
        c.wr.raw("}");
        c.wr.end();
    }
}
fn az_float<A, T>(c: &mut Ctx)
where
    A: Fx + AzAll<T>,
    T: PFloat + AzAll<A>,
{
    let la = A::lay();
    let pats = float_patterns::<T>(c, la, 24);
    for &fb in pats.iter().take(kq(c, 120, 3000)) {
        let x = T::from_b(fb);
        head(c, "f2x");
        c.wr.raw(",\"az\":1,\"ft\":");
        c.wr.raw(T::FT);
        c.wr.raw(",\"B\":");
        c.wr.lay(la);
        c.wr.raw(",\"fb\":");
        c.wr.num(Num::u(fb as u128));
        let forms = |_: ()| [
            o_val(|| Cast::<A>::cast(x)),
            o_opt(|| CheckedCast::<A>::checked_cast(x)),
            o_val(|| SaturatingCast::<A>::saturating_cast(x)),
            o_val(|| WrappingCast::<A>::wrapping_cast(x)),
            o_pair(|| OverflowingCast::<A>::overflowing_cast(x)),
        ];
        c.wr.raw(",\"o\":");
        c.wr.outs(&forms(()));
        c.wr.raw(",\"o2\":");
        c.wr.outs(&forms(()));
        c.wr.raw("}");
        c.wr.end();
    }
    for ar in budget(single_values(c, la, 25), kq(c, 60, 1500), c.seed ^ 0xA5 ^ ((la.w as u64) << 20) ^ la.f as u64 ^ ((T::MBITS as u64) << 32)) {
        let a = A::from_raw(ar);
        head(c, "x2f");
        c.wr.raw(",\"az\":1,\"ft\":");
        c.wr.raw(T::FT);
        c.wr.raw(",\"A\":");
        c.wr.lay(la);
        c.wr.raw(",\"a\":");
        c.wr.num(a.val());
        c.wr.raw(",\"o\":");
        c.wr.outs(&[
            pf_val(|| Cast::<T>::cast(a)),
            pf_opt(|| CheckedCast::<T>::checked_cast(a)),
            pf_val(|| SaturatingCast::<T>::saturating_cast(a)),
            pf_val(|| WrappingCast::<T>::wrapping_cast(a)),
            pf_pair(|| OverflowingCast::<T>::overflowing_cast(a)),
        ]);
        c.wr.raw("}");
        c.wr.end();
    }
}

/// StaticCast between fixed types: `Some` is decided at compile time from the two layouts, so it is reported per value
/// at the extremes and a few lattice values; the specification demands that Some carries the exact converted value
/// and that a layout pair answering Some does so only if every source value fits (checked at min and max).
fn az_static<A, B>(c: &mut Ctx)
where
    A: Fx + StaticCast<B>,
    B: Fx,
{
    let (la, lb) = (A::lay(), B::lay());
    let mut vals = vec![0u128, 1, mask(la.w), if la.s { 1u128 << (la.w - 1) } else { mask(la.w) }, if la.s { mask(la.w - 1) } else { mask(la.w) >> 1 }];
    vals.extend(budget(gen::lattice(la, false), 6, c.seed ^ 0xA6 ^ ((la.w as u64) << 8) ^ la.f as u64));
    for ar in vals {
        let a = A::from_raw(ar);
        head(c, "static");
        c.wr.raw(",\"A\":");
        c.wr.lay(la);
        c.wr.raw(",\"B\":");
        c.wr.lay(lb);
        c.wr.raw(",\"a\":");
        c.wr.num(a.val());
        c.wr.raw(",\"o\":");
        c.wr.out1(&o_opt(|| StaticCast::<B>::static_cast(a)));
        c.wr.raw("}");
        c.wr.end();
    }
}

macro_rules! aliases { ($c:expr; $($t:ident)*) => { $( alias::<$t>($c, stringify!($t), <$t>::INT_NBITS, <$t>::FRAC_NBITS); )* } }
// ------------------------------------------------------------------ G05: iterator folds and predicates of the plain types
fn nums(c: &mut Ctx, xs: &[u128], l: Lay) {
    c.wr.raw("[");
    for (i, &x) in xs.iter().enumerate() {
        if i > 0 { c.wr.raw(","); }
        c.wr.num(sval(x, l.s, l.w));
    }
    c.wr.raw("]");
}
fn fold<A>(c: &mut Ctx)
where
    A: Fx + std::iter::Sum<A> + std::iter::Product<A> + for<'a> std::iter::Sum<&'a A> + for<'a> std::iter::Product<&'a A>,
{
    let l = A::lay();
    let mut rng = Rng::new(c.seed ^ 0xF01D ^ ((l.w as u64) << 40) ^ ((l.f as u64) << 12) ^ l.s as u64);
    let one = if l.f < l.w { 1u128 << l.f } else { 0 };
    let lat = gen::lattice_small(l);
    let mut lists: Vec<Vec<u128>> = vec![vec![], vec![0], vec![one], vec![mask(l.w)], vec![one, one, one], vec![1, 1], vec![mask(l.w), 1]];
    for _ in 0..kq(c, 30, 400) {
        let n = 1 + rng.below(6) as usize;
        // small magnitudes (sums / products mostly fit), lattice values (mostly overflow), and a mix
        let cls = rng.below(3);
        let mut v = vec![];
        for _ in 0..n {
            let small = {
                let bits = 1 + rng.below(((l.w as u64) / n as u64).max(2)) as u32;
                let m = rng.u128() & mask(bits.min(l.w - 1));
                if l.s && rng.below(2) == 0 { m.wrapping_neg() & mask(l.w) } else { m }
            };
            let near_one = one.wrapping_add(rng.below(5) as u128).wrapping_sub(2) & mask(l.w);
            v.push(match cls { 0 => small, 1 => lat[rng.below(lat.len() as u64) as usize], _ => if rng.below(2) == 0 { small } else { near_one } });
        }
        lists.push(v);
    }
    for xs in lists {
        let v: Vec<A> = xs.iter().map(|&x| A::from_raw(x)).collect();
        for op in ["sum", "product"] {
            head(c, "fold");
            c.wr.raw(",\"op\":\"");
            c.wr.raw(op);
            c.wr.raw("\",\"L\":");
            c.wr.lay(l);
            c.wr.raw(",\"xs\":");
            nums(c, &xs, l);
            c.wr.raw(",\"o\":");
            let o = if op == "sum" {
                [o_val(|| v.iter().cloned().sum::<A>()), o_val(|| v.iter().sum::<A>())]
            } else {
                [o_val(|| v.iter().cloned().product::<A>()), o_val(|| v.iter().product::<A>())]
            };
            c.wr.outs(&o);
            c.wr.raw("}");
            c.wr.end();
        }
    }
}
fn pred<A: Fx + FxSign + Default>(c: &mut Ctx) {
    let l = A::lay();
    let mut vals = gen::lattice(l, false);
    vals.extend(single_values(c, l, 31));
    for ar in budget(vals, kq(c, 60, 1000), c.seed ^ 0x9ED ^ ((l.w as u64) << 40) ^ ((l.f as u64) << 12) ^ l.s as u64) {
        let a = A::from_raw(ar);
        head(c, "pred");
        c.wr.raw(",\"L\":");
        c.wr.lay(l);
        c.wr.raw(",\"a\":");
        c.wr.num(a.val());
        c.wr.raw(",\"o\":");
        let sg = |f: Option<bool>| match f { Some(b) => Out::B(b), None => Out::Absent };
        c.wr.outs(&[
            sg(A::p_is_neg(a)),
            sg(A::p_is_pos(a)),
            o_val(|| A::min_value()),
            o_val(|| A::max_value()),
            o_val(|| A::default()),
            o_val(|| A::from_bits(a.to_bits())),
            o_val(|| A::from_le_bytes(a.to_le_bytes())),
            o_val(|| A::from_be_bytes(a.to_be_bytes())),
            o_val(|| A::from_ne_bytes(a.to_ne_bytes())),
        ]);
        c.wr.raw("}");
        c.wr.end();
    }
}

macro_rules! each { ($f:ident, $c:expr; $($t:ident)*) => { $( $f::<$t>($c); )* } }
macro_rules! each_to { ($f:ident, $b:ty, $c:expr; $($t:ident)*) => { $( $f::<$t, $b>($c); )* } }
macro_rules! each_from { ($f:ident, $a:ty, $c:expr; $($t:ident)*) => { $( $f::<$a, $t>($c); )* } }
// a spread of layouts over every width, with all-integer / all-fraction / mixed shapes
macro_rules! spread { ($m:ident!($($pre:tt)*)) => { $m!($($pre)* I8F0 I4F4 I0F8 U8F0 U1F7 U0F8 I16F0 I8F8 I5F11 I0F16 U16F0 U12F4 U0F16 I32F0 I17F15 I9F23 I0F32 U32F0 U16F16 U0F32
    I64F0 I48F16 I32F32 I0F64 U64F0 U33F31 U0F64 I128F0 I113F15 I64F64 I1F127 I0F128 U128F0 U96F32 U17F111 U0F128) } }

fn main() {
    let o = opts();
    silence_panics();
    let mut c = Ctx {
        wr: Wr::new(true, o.out.as_deref()),
        topics: o.topic.split(',').map(|s| s.to_string()).collect(),
        tier: o.tier.clone(),
        seed: o.seed,
        n: if o.n > 0 { o.n as usize } else { 8 },
        w8only: false,
        replay: None,
        scale: 2,
    };
    let _ = &c.replay;
    let thorough = c.tier == "thorough";
    if c.on("cmpf") || c.on("f2x") || c.on("x2f") {
        spread!(each!(sampled16, &mut c;));
    }
    if c.on("f2xall") {
        // every f16 and every bf16 bit pattern
        each!(f2x_all, &mut c; I8F8 U16F0 I4F4 U0F16 I16F16 I64F64);
        if thorough {
            each!(f2x_all, &mut c; I0F8 U8F0 I16F0 I1F15 U5F11 I32F0 U0F32 I17F15 U64F0 I0F64 U33F31 I128F0 U0F128 I1F127 U113F15 I113F15);
        }
    }
    if c.on("x2fall") {
        // every value of every 8-bit layout and of a few 16-bit layouts
        for_w8!(each!(x2f_all, &mut c;));
        each!(x2f_all, &mut c; I8F8 U16F0 I0F16 U5F11);
        if thorough {
            for_w16!(each!(x2f_all, &mut c;));
        }
    }
    if c.on("az") {
        spread!(each_to!(az_fix, I8F8, &mut c;));
        spread!(each_to!(az_fix, U0F128, &mut c;));
        spread!(each_to!(az_fix, I64F64, &mut c;));
        spread!(each_from!(az_fix, I16F16, &mut c;));
        spread!(each_from!(az_fix, U128F0, &mut c;));
        spread!(each_to!(az_int, i8, &mut c;));
        spread!(each_to!(az_int, u16, &mut c;));
        spread!(each_to!(az_int, i64, &mut c;));
        spread!(each_to!(az_int, u128, &mut c;));
        spread!(each_to!(az_int, isize, &mut c;));
        spread!(each_to!(az_float, f32, &mut c;));
        spread!(each_to!(az_float, f64, &mut c;));
        spread!(each_to!(az_float, f16, &mut c;));
        spread!(each_to!(az_float, bf16, &mut c;));
    }
    if c.on("static") {
        spread!(each_to!(az_static, I8F8, &mut c;));
        spread!(each_to!(az_static, U16F16, &mut c;));
        spread!(each_to!(az_static, I64F64, &mut c;));
        spread!(each_to!(az_static, U0F128, &mut c;));
        spread!(each_to!(az_static, I128F0, &mut c;));
        spread!(each_from!(az_static, U8F0, &mut c;));
        spread!(each_from!(az_static, I4F4, &mut c;));
        spread!(each_from!(az_static, U32F32, &mut c;));
    }
    if c.on("fold") {
        spread!(each!(fold, &mut c;));
    }
    if c.on("pred") {
        spread!(each!(pred, &mut c;));
    }
    if c.on("alias") {
        for_all_layouts!(aliases!(&mut c;));
    }
    c.wr.flush();
}
