"""Driver core: build the harness from /repo's working tree, run generators, shard traces,
run TLC (trace validation and design models), classify rejects, write evidence.
Python stdlib only.  The driver contains no oracle: TLC decides every event."""
import json, os, re, subprocess, sys, time, shutil, hashlib, random
from concurrent.futures import ThreadPoolExecutor

ROOT = os.path.dirname(os.path.dirname(os.path.abspath(__file__)))
HARNESS = os.path.join(ROOT, "harness")
WORK = os.path.join(ROOT, "work")
TLA = os.path.join(ROOT, "tla")
REPLAYS = os.path.join(ROOT, "replays")
EVID = os.path.join(ROOT, "evidence")
TLCJ = os.path.join(ROOT, "bin", "tlcj")
NCPU = os.cpu_count() or 4
JVMS = max(2, min(16, NCPU))

LIBS = {
    "int": ":".join([TLA, TLA + "/sem", TLA + "/alg", TLA + "/vm", TLA + "/dom_int"]),
    "big": ":".join([TLA, TLA + "/sem", TLA + "/alg", TLA + "/vm", TLA + "/dom_big"]),
}


class ToolError(Exception):
    pass


def log(*a):
    print(*a, flush=True)


def run(cmd, cwd=None, env=None, timeout=None, check=True):
    e = dict(os.environ)
    e.update({"CARGO_NET_OFFLINE": "true"})
    if env:
        e.update(env)
    p = subprocess.run(cmd, cwd=cwd, env=e, stdout=subprocess.PIPE, stderr=subprocess.STDOUT,
                       timeout=timeout, text=True, errors="replace")
    if check and p.returncode != 0:
        raise ToolError("command failed (%d): %s\n%s" % (p.returncode, " ".join(cmd), p.stdout[-4000:]))
    return p


# ----------------------------------------------------------------------------- build
def build(bins, profiles, crate=None):
    """(Re)build the harness bins from /repo's current working tree, hooks enabled."""
    hdir = os.path.join(ROOT, crate) if crate else HARNESS
    lock = os.path.join(hdir, "Cargo.lock")
    if not os.path.exists(lock):
        shutil.copy(os.path.join(os.path.dirname(ROOT), "repo", "Cargo.lock"), lock)
    t0 = time.time()

    def one(profile):
        cmd = ["cargo", "build", "--offline", "--profile", profile]
        for b in bins:
            cmd += ["--bin", b]
        try:
            run(cmd, cwd=hdir, timeout=3000)
        except subprocess.TimeoutExpired:
            raise ToolError("cargo build timed out")

    with ThreadPoolExecutor(max_workers=len(profiles)) as ex:
        list(ex.map(one, profiles))
    return time.time() - t0


def binpath(profile, b):
    if "/" in b:            # "<crate dir>/<bin>": a harness crate other than the main one (growth checks)
        crate, b = b.split("/", 1)
        return os.path.join(ROOT, crate, "target", profile, b)
    return os.path.join(HARNESS, "target", profile, b)


# ----------------------------------------------------------------------------- traces
def gen_trace(pid, name, profile, binname, args, timeout=1500):
    d = os.path.join(WORK, pid)
    os.makedirs(d, exist_ok=True)
    out = os.path.join(d, name + ".ndjson")
    cmd = [binpath(profile, binname)] + args + ["--out", out]
    try:
        p = run(cmd, timeout=timeout, check=False)
    except subprocess.TimeoutExpired:
        raise ToolError("generator timed out: " + " ".join(cmd))
    if p.returncode != 0:
        raise ToolError("generator failed (%d): %s\n%s" % (p.returncode, " ".join(cmd), p.stdout[-2000:]))
    return out


def shard_file(path, per_shard, max_shards=256, boundary=None):
    """split an ndjson file into shards of <= per_shard lines; returns [(shard_path, first_line_no, nlines)]"""
    shards = []
    base = path[:-7]
    with open(path) as f:
        idx = 0
        n = 0
        cur = None
        start = 1
        lineno = 0
        for line in f:
            lineno += 1
            if cur is not None and n >= per_shard and (boundary is None or line.startswith(boundary)):
                cur.close()
                shards.append((sp, start, n))
                cur = None
                idx += 1
            if cur is None:
                sp = "%s.s%03d.ndjson" % (base, idx)
                cur = open(sp, "w")
                start = lineno
                n = 0
            cur.write(line)
            n += 1
        if cur is not None:
            cur.close()
            shards.append((sp, start, n))
    return shards


REJ = re.compile(r'<<"REJECT", (\d+)(?:, "([^"]*)")?(?:, "([^"]*)")?>>')
CONS = re.compile(r'<<"CONSUMED", (\d+)>>')
STATES = re.compile(r'(\d+) states generated, (\d+) distinct states found')


def tlc_trace(shard, dom, prop, spec="Trace", timeout=3000, extra_env=None):
    """validate one shard; returns dict(rejects=[(idx, dev, note)], consumed, states, out)"""
    meta = shard + ".meta"
    env = {"TRACE": shard, "PROP": prop, "TLCJ_XMX": "-Xmx2500m"}
    if extra_env:
        env.update(extra_env)
    cmd = [TLCJ, LIBS[dom], "-workers", "1", "-metadir", meta, "-cleanup", "-noGenerateSpecTE",
           "-config", os.path.join(TLA, "vm", spec + ".cfg"), os.path.join(TLA, "vm", spec + ".tla")]
    try:
        p = run(cmd, cwd=os.path.join(TLA, "vm"), env=env, timeout=timeout, check=False)
    except subprocess.TimeoutExpired:
        raise ToolError("TLC timed out on " + shard)
    finally:
        shutil.rmtree(meta, ignore_errors=True)
    out = p.stdout
    rej = [(int(m.group(1)), m.group(2) or "", m.group(3) or "") for m in REJ.finditer(out)]
    cons = CONS.search(out)
    st = STATES.search(out)
    if cons is None or st is None or "Model checking completed. No error has been found." not in out:
        raise ToolError("TLC did not consume trace %s (exit %d):\n%s" % (shard, p.returncode, out[-3000:]))
    return dict(rejects=rej, consumed=int(cons.group(1)), states=int(st.group(2)), transitions=int(st.group(1)))


def validate(pid, traces, prop=None, spec="Trace"):
    """traces: list of (path, dom, per_shard).  Returns (stats, rejects) where rejects is a list of
    dict(event=<json>, dev=<deviation name or ''>, trace=path, line=n)."""
    prop = prop or pid
    jobs = []
    for path, dom, per in traces:
        for sp, start, n in shard_file(path, per, boundary='{"k":"wreset"' if "wrap" in os.path.basename(path) else None):
            jobs.append((sp, dom, start, n, path))
    stats = dict(events=0, states=0, transitions=0, shards=len(jobs))
    rejects = []

    def one(j):
        sp, dom, start, n, path = j
        r = tlc_trace(sp, dom, prop, spec)
        if r["consumed"] != n:
            raise ToolError("shard %s: consumed %d of %d" % (sp, r["consumed"], n))
        rj = []
        if r["rejects"]:
            with open(sp) as f:
                lines = f.readlines()
            for idx, dev, note in r["rejects"]:
                ev = json.loads(lines[idx - 1])
                rec = dict(event=ev, dev=dev, note=note, trace=path, line=start + idx - 1)
                if ev.get("k") == "w":
                    # a step of a Wrapping<F> program: keep the program up to this step as context
                    j = idx - 1
                    while j > 0 and not lines[j].startswith('{"k":"wreset"'):
                        j -= 1
                    rec["program"] = [json.loads(x) for x in lines[j:idx]]
                rj.append(rec)
        os.remove(sp)
        return r, rj

    with ThreadPoolExecutor(max_workers=JVMS) as ex:
        for r, rj in ex.map(one, jobs):
            stats["events"] += r["consumed"]
            stats["states"] += r["states"]
            stats["transitions"] += r["transitions"]
            rejects.extend(rj)
    return stats, rejects


# ----------------------------------------------------------------------------- design models
def tlc_model_dir(subdir, module, cfg, dom, workers=None, timeout=3000):
    return tlc_model(module, cfg, dom, workers=workers, timeout=timeout, subdir=subdir)


def tlc_model(module, cfg, dom, workers=None, timeout=3000, env=None, simulate=None, subdir="mc"):
    """run a design model (tla/<subdir>/<module>.tla) with TLC.  Returns dict(ok, states, transitions, out)"""
    mdir = os.path.join(TLA, subdir)
    meta = os.path.join(WORK, "meta_" + module + "_" + os.path.basename(cfg) + "_%d" % os.getpid())
    e = {"TLCJ_GC": "-XX:+UseParallelGC", "TLCJ_XMX": "-Xmx6g"}
    if env:
        e.update(env)
    cmd = [TLCJ, LIBS[dom] + ":" + mdir, "-workers", str(workers or min(8, NCPU)), "-metadir", meta, "-cleanup",
           "-noGenerateSpecTE", "-config", os.path.join(mdir, cfg), os.path.join(mdir, module + ".tla")]
    if simulate:
        cmd[cmd.index("-metadir"):cmd.index("-metadir")] = ["-simulate", simulate]
    try:
        p = run(cmd, cwd=mdir, env=e, timeout=timeout, check=False)
    except subprocess.TimeoutExpired:
        raise ToolError("TLC timed out on design model " + module)
    finally:
        shutil.rmtree(meta, ignore_errors=True)
    out = p.stdout
    st = STATES.search(out)
    ok = "Model checking completed. No error has been found." in out
    violated = ("is violated" in out) or ("Error: Invariant" in out) or ("Error: Action property" in out)
    if not ok and not violated and not simulate:
        raise ToolError("TLC error on design model %s/%s:\n%s" % (module, cfg, out[-3000:]))
    return dict(ok=ok, violated=violated, states=int(st.group(2)) if st else 0,
                transitions=int(st.group(1)) if st else 0, out=out)


def apalache(module, cinit, inv, length=0, timeout=600, cwd=None, init=None, next_=None):
    """Apalache bounded/inductive check of a design lemma.  Returns dict(result, note)."""
    cwd = cwd or os.path.join(TLA, "apa")
    out = os.path.join(WORK, "apalache_%d_%s_%s" % (os.getpid(), cinit, inv))
    cmd = ["apalache-mc", "check", "--cinit=" + cinit, "--inv=" + inv, "--length=%d" % length, "--out-dir=" + out]
    if init:
        cmd += ["--init=" + init, "--next=" + next_]
    cmd.append(module)
    t0 = time.time()
    try:
        p = run(cmd, cwd=cwd, timeout=timeout, check=False)
    except subprocess.TimeoutExpired:
        shutil.rmtree(out, ignore_errors=True)
        return dict(result="timeout", note="apalache timed out after %ds" % timeout, wall=time.time() - t0)
    shutil.rmtree(out, ignore_errors=True)
    o = p.stdout
    if "EXITCODE: OK" in o and "no error" in o.lower():
        return dict(result="ok", wall=time.time() - t0)
    if "EXITCODE: ERROR (12)" in o or "violat" in o.lower():
        return dict(result="violated", detail=o[-3000:], wall=time.time() - t0)
    raise ToolError("apalache failed on %s %s %s:\n%s" % (module, cinit, inv, o[-3000:]))


# ----------------------------------------------------------------------------- findings / evidence
def load_known():
    path = os.path.join(ROOT, "known_findings.jsonl")
    known, fixed = [], []
    if os.path.exists(path):
        for line in open(path):
            line = line.strip()
            if not line or line.startswith("#"):
                continue
            if line.startswith("fixed:"):
                fixed.append(line)
                continue
            known.append(json.loads(line))
    return known, fixed


def ev_key(ev):
    return hashlib.sha1(json.dumps(ev, sort_keys=True).encode()).hexdigest()[:12]


def write_replay(pid, n, events, meta):
    os.makedirs(REPLAYS, exist_ok=True)
    p = os.path.join(REPLAYS, "%s-%d.json" % (pid, n))
    with open(p, "w") as f:
        json.dump(dict(property=pid, events=events, **meta), f)
    return p


def write_evidence(pid, tier, seed, coverage, wall, violations, assumptions, level="model_checking", outdir=None):
    global EVID
    if outdir:
        os.makedirs(outdir, exist_ok=True)
        ev = dict(property_id=pid, tier=tier, seed=seed, level=level, coverage=coverage,
                  assumptions=assumptions, wall_s=round(wall, 2), violations=violations)
        with open(os.path.join(outdir, pid + ".json"), "w") as f:
            json.dump(ev, f, indent=1)
        return
    os.makedirs(EVID, exist_ok=True)
    ev = dict(property_id=pid, tier=tier, seed=seed, level=level, coverage=coverage,
              assumptions=assumptions, wall_s=round(wall, 2), violations=violations)
    tmp = os.path.join(EVID, pid + ".json.tmp")
    with open(tmp, "w") as f:
        json.dump(ev, f, indent=1)
    os.replace(tmp, os.path.join(EVID, pid + ".json"))


def sample_lines(path, k, seed):
    """k sample events of a trace file (first, last and random)"""
    try:
        with open(path) as f:
            lines = f.readlines()
    except OSError:
        return []
    if not lines:
        return []
    rnd = random.Random(seed)
    idx = sorted(set([0, len(lines) - 1] + [rnd.randrange(len(lines)) for _ in range(max(0, k - 2))]))
    return [json.loads(lines[i]) for i in idx]


KIND_RE = re.compile(r'"k":"([a-z0-9]+)"(?:.*?"(?:op|fn|kind)":"([A-Za-z0-9_]+)")?')
BY_KIND = {}


def count_distinct(paths, keyf=None):
    """distinct events (by content hash) and distinct non-trivial ones according to keyf; also fills BY_KIND with
    the number of events per (event kind, operation) -- the vacuity check: every operation of the plan must occur"""
    seen = set()
    nontriv = 0
    total = 0
    BY_KIND.clear()
    for p in paths:
        with open(p) as f:
            for line in f:
                total += 1
                m = KIND_RE.search(line[:400] if not line.startswith('{"k":"pair"') else line[16:416])
                if m:
                    k = m.group(1) + ("/" + m.group(2) if m.group(2) else "")
                    BY_KIND[k] = BY_KIND.get(k, 0) + 1
                h = hash(line)
                if h in seen:
                    continue
                seen.add(h)
                if keyf is None or keyf(line):
                    nontriv += 1
    return total, len(seen), nontriv
