#!/usr/bin/env python3
"""Regenerates /verif/MANIFEST.json from the table below (keeps it valid at all times)."""
import json, os, subprocess
ROOT = os.path.dirname(os.path.dirname(os.path.abspath(__file__)))

COMMON_NOTE = ("Trusted: TLC 1.8, the pure-TLA+ BigInt library (self-checked against native arithmetic by "
               "tla/mc/MC_BigInt on every setup), rustc's primitive integer operations and catch_unwind, the harness's "
               "JSON encoders. The code is covered by conformance on the generated inputs (exhaustive for 8-bit layouts "
               "where stated), not proved for every operand of the wide types.")

CLAIMS = {
    "C01": dict(
        text="Every recorded mul/div call of the real library (all forms) must be a step of the TLA+ specification: "
             "the exact result R = floor(a*b/2^f) resp. trunc(a*2^f/b) of layer M (tla/sem/Sem.tla), evaluated by TLC in "
             "exact integer arithmetic. 8-bit layouts: all 18, stratified (quick) or all 65 536 (thorough) operand pairs; "
             "88 layouts of 16..128 bits incl. f=0, f=w, 0/1 integer bits: boundary lattice, correlated and random pairs. "
             "Plus a light sweep over all 488 wider layouts. Design models: MC_Sem (layer M vs first principles), MulLimbs and "
             "DivHalf (TLC for every limb tuple at small limb bases, Apalache for all operands at 2^64).",
        technique="TLA+ trace validation with TLC (impl->spec) + TLC/Apalache design models of the limb algorithms",
        design_ref="6/C01"),
    "C02": dict(
        text="Quad events (plain, checked, saturating, wrapping, overflowing of one call on identical operands) for neg, "
             "abs, add, sub, mul, div, mul_int, div_int are validated by TLC against one exact R and the generic policy "
             "operators CheckedOk/SatOk/WrapOk/OvfOk of Sem.tla; a panic in a policy form with a non-zero divisor is rejected. Every "
             "by-reference / assigning-by-reference spelling of the operators (and the integer on the left of *) is recorded with the call; "
             "the 16..128-bit corpus is recorded under the checked build profile as well.",
        technique="TLA+ trace validation with TLC (impl->spec), policies defined once over exact integers",
        design_ref="6/C02"),
    "C06": dict(
        text="Every value of every 8-bit layout (and lattice+random values of 88 wider layouts) through ceil/floor/round/"
             "round_ties_to_even (5 forms each), round_to_zero, int, frac; TLC compares with the exact integer roundings of "
             "Sem.tla (FloorK, CeilK, RoundAwayK, RoundEvenK, TruncK) and the policy operators; sweep over all layouts. Design model "
             "MC_Round: the masks and 0/1-integer-bit special cases as coded = exact roundings for every value of 68 layouts; RoundInt "
             "(Apalache): the same for EVERY value of real layouts of 16..128 bits (0, 1, 2, half, all integer bits). The 16..128-bit corpus "
             "is recorded under the checked build profile as well.",
        technique="TLA+ trace validation with TLC (impl->spec), exhaustive on the 8-bit types; TLC (small widths) and Apalache (real widths) "
                  "design models of the rounding code",
        design_ref="6/C06"),
    "C07": dict(
        text="rem, rem_euclid, div_euclid with fixed and integer divisors in every provided form, validated by TLC against "
             "Euclidean division on the raw bits (ERem/EQuo of Sem.tla). The known defect of the div_euclid family is a named "
             "deviation: accepted only when the as-coded layer-A model (tla/alg/EuclidAlg.tla) reproduces all five logged forms "
             "bit for bit, so any other wrong answer is still a violation. Assigning and by-reference spellings of % and the deprecated "
             "inherent wrapping_/overflowing_rem_int are recorded with the call; the 16..128-bit corpus also under the checked profile.",
        technique="TLA+ trace validation with TLC (impl->spec) + named-deviation A-model for the recorded defect",
        design_ref="6/C07"),
    "C03": dict(
        text="Recorded comparisons of the real library (==, !=, <, <=, >, >=, partial_cmp; both operand orders) between fixed types "
             "(all 324 ordered pairs of 8-bit layouts, 288 cross-width pairs), 12 primitive integer types and f32/f64 bit patterns "
             "(every class incl. -0, subnormals, top binade, infinities, NaN payloads) are validated by TLC against the exact rational "
             "comparison CmpVal/CmpFloat of tla/sem/SemConv.tla; Ord/Hash within one type; all-layout sweep under both build profiles. "
             "Design models: MC_Cmp (TLC, 900 layout pairs of widths 3..5 x all values; thorough: all 324 pairs of the 8-bit layouts x all "
             "65 536 value pairs) and CmpInt (Apalache: comparison as coded = exact comparison for EVERY pair of values of real layout "
             "pairs up to 128 bits; refuted without the repaired sign check).",
        technique="TLA+ trace validation with TLC (impl->spec), exact rational comparison; floats decoded from bit patterns; TLC and "
                  "Apalache design models of the comparison code",
        design_ref="6/C03"),
    "C04": dict(
        text="fixed<->fixed, fixed<->integer and bool conversions through to_num and from_num call paths in all five forms, plus ~1100 "
             "existing From/LossyFrom impls, validated by TLC against R = floor(x * 2^(fd-fs)) and the generic policies; From must be "
             "lossless and in range for every source value; compile-time impl-existence probes over 3932 layout pairs. Design model MC_Conv: "
             "to_fixed_helper + overflowing_/saturating_from_fixed as coded = floor shift / wrap / clamp for 1296 layout pairs x all values; "
             "ConvInt (Apalache): the same for EVERY source value of real layout pairs up to 128 bits, including the shift-by-128 arms. "
             "All-layout sweep under both build profiles.",
        technique="TLA+ trace validation with TLC (impl->spec) + TLC (small widths) and Apalache (real widths) design models of the "
                  "conversion core", design_ref="6/C04"),
    "C05": dict(
        text="float->fixed (five forms, both call paths) and fixed->float (five forms) for f32/f64 over 106 layouts: TLC recomputes "
             "round-to-nearest-even on exact integers (FloatToFixR, FixToFloatBits incl. gradual underflow and overflow to infinity) and "
             "compares bit for bit; non-finite inputs must be rejected as documented. Light sweep over all 506 layouts. Design model "
             "MC_Float: to_float_kind/to_fixed_helper as coded = M on two miniature float formats, every bit pattern.",
        technique="TLA+ trace validation with TLC (impl->spec), IEEE-754 rounding defined on exact integers in TLA+; TLC design model on "
                  "miniature float formats", design_ref="6/C05"),
    "C10": dict(
        text="SCALE encode/decode (exact, every short prefix, long input), encoded_size, max_encoded_len, le/be/ne byte views, bits round "
             "trips, every method of the Encode trait (encode, encode_to, using_encoded on the value / a reference / a Box, encoded_size), "
             "nested / appended / Option / Vec / array encodings, the serde struct/sequence forms and the Wrapping<F> serde round trip, "
             "validated by TLC against LEBytes(bits mod 2^w, w/8) for every value of the 8-bit layouts and lattice+random values of 88 "
             "wider layouts; malformed serde documents must not panic.",
        technique="TLA+ trace validation with TLC (impl->spec)", design_ref="6/C10"),
    "C11": dict(
        text="The union corpus of the arithmetic, comparison, conversion, float, codec and Wrapping generators is recorded by the harness "
             "built with debug-assertions+overflow-checks on and off; TLC validates the paired records with the ProfilePair action: every "
             "outcome slot identical, or a panic of the checked build exactly where the exact result of an un-prefixed form does not fit "
             "or the divisor is zero (decided by layer M), never in a checked_/saturating_/wrapping_/overflowing_ form.",
        technique="TLA+ trace validation with TLC of paired traces from two build profiles (ProfilePair action)",
        design_ref="6/C11"),
    "C18": dict(
        text="Random 14-step programs over four registers of Wrapping<F> (all operators in by-value/by-reference/assigning forms, 12 shift "
             "amount types, bit operators in all six spellings, rotates, Sum/Product, rounding, from_num, the constructors min_value / "
             "max_value / from_bits / From<F>, and the observers count_ones/zeros, leading/trailing_zeros, is_power_of_two, is_negative, "
             "int_nbits, frac_nbits, to_bits, to_num into 14 destinations, Display) on 36 layouts under both build profiles, plus systematic "
             "programs for every operation over the boundary lattice / every 8-bit value; the trace specification is a "
             "register machine (tla/sem/SemWrap.tla): TLC keeps the registers itself and recomputes every step modulo 2^w from its own "
             "state, so a wrong intermediate is caught at the step that produced it. Panics accepted only for a zero divisor.",
        technique="TLA+ trace validation with TLC of a stateful register-machine specification (impl->spec), both build profiles; "
                  "TLC model checking of the closed machine (MC_WrapVM); TLC-simulated programs replayed (spec->impl)",
        design_ref="6/C18"),
    "C08": dict(
        text="from_str / from_str_binary / _octal / _hex and their saturating_, wrapping_, overflowing_ forms on 106 layouts: tokeniser "
             "strings (all strings up to length 3/5 over a 10-symbol alphabet, 70 malformed/edge strings), decimal tie literals (exact "
             "tie expansions, proper prefixes, +-1 in the last place, hair above/below), random long decimals, exact radix-2^k "
             "expansions with half-digit tails, overflow-edge integer parts, 10 000-digit literals. TLC computes the exact rational of "
             "the literal and its round-to-nearest-even image (ParseR) in BigInt arithmetic and applies the policies. Tie literals are "
             "also generated by TLC from the specification (Gen_Ties) and replayed; MC_Parse checks the tokeniser as coded against the "
             "grammar for every string up to length 5.",
        technique="TLA+ trace validation with TLC (impl->spec), exact rational parsing semantics in TLA+; TLC-generated literals "
                  "(spec->impl); TLC design model of the tokeniser", design_ref="6/C08"),
    "C09": dict(
        text="Display, Debug, Binary, Octal, LowerHex, UpperHex with automatic and explicit precision and 14 flag templates: TLC checks "
             "that the unflagged body is the correctly rounded expansion at the digits shown (exact for radix 2^k without precision), "
             "that the automatic decimal output parses back to the same bits (in the specification and through the real FromStr), and "
             "that every flagged output is pad(sign ++ prefix ++ body) for the logged flags.",
        technique="TLA+ trace validation with TLC (impl->spec)", design_ref="6/C09"),
    "C12": dict(
        text="sqrt, log2, ln, exp, pow, powi, sin, cos, tan recorded under both build profiles on 14 layouts and 6 widening pairs with "
             "operands at the extremes (min, max, +-1 ulp, reciprocal-overflow edge, exponents up to i32::MIN/MAX); TLC requires outcome "
             "kind Ok/Err (no panic, no exhausted iteration budget), Err for undefined requests and for exp / pow / powi results that clearly do "
             "not fit (beyond the maximum by more than the error C15 allows), and a normal return of sin/cos/tan inside "
             "the stated angle domain (the tan domain is decided with the specification's own sin/cos reference). Design lemma TrigReduce "
             "(Apalache, every angle): no intermediate of the argument reduction of sin / cos / tan leaves a 9-integer-bit type.",
        technique="TLA+ trace validation with TLC (impl->spec), both build profiles, loop-budget hook", design_ref="6/C12"),
    "C13": dict(
        text="sqrt results validated by TLC through an integer certificate (no square root needed): max(r-4,0)^2 <= x*2^(2fD-fS) <= (r+4)^2, "
             "exact at 0 and 1, Err only where the operand is negative or its reciprocal does not fit the destination. The corpus contains EVERY "
             "value of the 16-bit layouts U8F8 and I8F8 (thorough: seven 16-bit layouts). Design model MC_MathAlg: the Newton iteration "
             "transcribed loop for loop (fidelity to the code: ./check G06) meets the certificate for every operand of four small layouts.",
        technique="TLA+ trace validation with TLC (impl->spec), exact integer certificate", design_ref="6/C13"),
    "C14": dict(
        text="log2 / ln results validated by TLC against reference values computed inside the specification with 200 fractional bits "
             "(atanh series; ln 2 = 2 atanh(1/3); error < 2^-160): |r - log2 x| <= 8 ulp, exactness on powers of two, sign conditions, "
             "|r - ln x| <= 2^-23 |ln x| + 8 ulp, Err only for x <= 0 or a non-representable reciprocal.",
        technique="TLA+ trace validation with TLC (impl->spec), high-precision reference arithmetic written in TLA+", design_ref="6/C14"),
    "C15": dict(
        text="exp / pow / powi results validated by TLC: e^t by Taylor series and ten squarings at 200 bits, x^y = exp(y ln x), exact integer "
             "x^n; the property's relative+absolute bounds, the conventions 0^y, x^0, x^1 and the truncated-reciprocal clause of powi. "
             "Known finding pow_ln_resolution (pow with |y| >= 2^(F-3): the result follows the exact propagation of ln's 8-ulp error, which "
             "exceeds the first-order term of the bound) is a named deviation accepted only inside that exactly propagated band.",
        technique="TLA+ trace validation with TLC (impl->spec), high-precision reference arithmetic written in TLA+", design_ref="6/C15"),
    "C16": dict(
        text="sin / cos / tan results validated by TLC against Taylor-series references at 200 bits after reduction modulo 2 pi (pi from "
             "Machin's formula, computed in the specification): |r - sin x| <= 2^-16, |r| <= 1 + 2^-16 for |x| <= 200; "
             "|r c^2 - s c| <= 2^-14 for tan where |x| <= 100 and |tan x| <= 64. Design lemmas at the real widths, for every operand: "
             "TrigReduce (Apalache: the reduction by % / period correction / mirroring brings EVERY angle |x| <= 200 into [-pi/2, pi/2] in at "
             "most 32 periods without leaving a 9-integer-bit type), CordicZ (Apalache: from every such angle, for every truncation of the "
             "arctangent table, the 24 rotations leave a residual of at most 16 ulp of I9F23), MC_TrigConst (TLC, 200-bit arithmetic: the "
             "constants are the truncations of 2 pi, pi, pi/2, the table is atan(2^-i), and reduction + mirror + residual + table "
             "truncation stay below 2^-17).",
        technique="TLA+ trace validation with TLC (impl->spec), high-precision reference arithmetic written in TLA+; Apalache / TLC design "
                  "lemmas of the argument reduction and the CORDIC angle recurrence at the real widths", design_ref="6/C16"),
    "C17": dict(
        text="every call of sqrt, log2, ln, exp, pow, sin, cos, tan in the C12 corpus (largest/smallest magnitudes, angles 2^k up to the "
             "maximum, both profiles) carries the loop-iteration count read from the guarded hook; TLC checks it <= 4*max(wS,wD)+64 and "
             "that the budget sentinel never fired.",
        technique="TLA+ trace validation with TLC (impl->spec) of hook-recorded iteration counts", design_ref="6/C17"),
}

REASON_TODO = "check not built yet in this round; the specification does not cover it so far"
ALL = ["C%02d" % i for i in range(1, 19)]


def main():
    checks = []
    for pid in ALL:
        if pid not in CLAIMS:
            continue
        c = CLAIMS[pid]
        checks.append(dict(
            property_id=pid,
            quick_cmd="./check %s --tier quick" % pid,
            thorough_cmd="./check %s --tier thorough" % pid,
            evidence_file="/verif/evidence/%s.json" % pid,
            replay_cmd_template="./check %s --replay {path}" % pid,
            engine="tlc-trace-validation",
            level_claimed=dict(category=c.get("category", "model_checking"), text=c["text"], design_ref="DESIGN.md " + c["design_ref"]),
            level_note=c.get("note", COMMON_NOTE),
            technique=c["technique"],
        ))
    hooks_commits = []
    try:
        out = subprocess.run(["git", "-C", "/repo", "log", "--format=%H %s"], capture_output=True, text=True).stdout
        for line in out.splitlines():
            h, s = line.split(" ", 1)
            if s.startswith("verif hooks"):
                hooks_commits.append(h)
    except Exception:
        pass
    m = dict(
        version=1,
        setup_cmd="./setup.sh",
        hooks=dict(
            guard="substrate_fixed_verif",
            enable="RUSTFLAGS --cfg substrate_fixed_verif (set in /verif/harness/.cargo/config.toml; the harness is a separate "
                   "cargo workspace with a path dependency on /repo)",
            baseline_off_cmd="cd /repo && cargo test --workspace --no-fail-fast --offline",
            source_commits=hooks_commits,
            add_only=True),
        engines=[
            dict(name="tlc-trace-validation", path="/verif/tla/vm/Trace.tla",
                 serves_properties=sorted(CLAIMS.keys()),
                 kind_free_text="TLC validates ndjson traces recorded from the real library against the TLA+ specification "
                                "(layer M in tla/sem, named deviations in tla/alg), int or BigInt number domain"),
            dict(name="tlc-design-models", path="/verif/tla/mc", serves_properties=sorted(CLAIMS.keys()),
                 kind_free_text="TLC explicit-state checks of width-generic transcriptions of the code's algorithms against layer M "
                                "for every operand at small widths; Apalache for the 128-bit limb lemmas"),
        ],
        checks=checks,
        not_applicable=[dict(property_id=p, reason=REASON_TODO) for p in ALL if p not in CLAIMS],
        notes="See DESIGN.md. ./check <ID> exits 0/1/2 (held / VIOLATION / tool error). known_findings.jsonl lists recorded defects.",
    )
    with open(os.path.join(ROOT, "MANIFEST.json"), "w") as f:
        json.dump(m, f, indent=1)
    print("MANIFEST.json written:", len(checks), "checks")


if __name__ == "__main__":
    main()
