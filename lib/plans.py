"""Per-property plans: which harness bins / generators / design models decide each property."""
import os, re, time, json, shutil
import core
from core import log

# ----------------------------------------------------------------------------- design models
def d_tlc(name, module, cfg, dom, subdir="mc", expect="ok", thorough_only=False, workers=6):
    def runit(d, tier):
        r = core.tlc_model_dir(subdir, module, cfg, dom, workers=workers, timeout=3000)
        if expect == "violated":
            res = "refuted-as-expected" if r["violated"] else "unexpectedly-holds"
            return dict(result=res, states=r["states"], transitions=r["transitions"],
                        note="documents a recorded/repaired defect of the original design")
        return dict(result="violated" if r["violated"] else "ok", states=r["states"], transitions=r["transitions"],
                    detail=r["out"] if r["violated"] else "")
    return dict(name=name, run=runit, thorough_only=thorough_only)


def d_apa(name, module, cinit, inv, expect="ok", thorough_only=False, init=None, next_=None):
    def runit(d, tier):
        r = core.apalache(module, cinit, inv, timeout=150, init=init, next_=next_)
        if r["result"] == "timeout":
            return dict(result="inconclusive-timeout", note=r["note"])
        if expect == "violated":
            return dict(result="refuted-as-expected" if r["result"] == "violated" else "unexpectedly-holds")
        return dict(result=r["result"], detail=r.get("detail", ""), note="Apalache (symbolic, all operands), %.0fs" % r["wall"])
    return dict(name=name, run=runit, thorough_only=thorough_only)


D_SEM = d_tlc("MC_Sem: layer M against first principles, every operand, widths 2..6", "MC_Sem", "MC_Sem.cfg", "int")
D_SEM_DEEP = [d_tlc("MC_Sem (deep): layer M against first principles, every operand, widths 7 and 8 (8 = the shipping 8-bit layouts)", "MC_Sem",
                    "MC_Sem_deep.cfg", "int", thorough_only=True)]
D_MUL = [
    d_tlc("MulLimbs (TLC, signed, H=8, every limb tuple): recombination, combine_lo_then_shl, repaired assertion",
          "MulLimbs", "MulLimbs_tlc_TRUE_8.cfg", "int", subdir="apa"),
    d_tlc("MulLimbs (TLC, unsigned, H=8)", "MulLimbs", "MulLimbs_tlc_FALSE_8.cfg", "int", subdir="apa"),
    d_apa("MulLimbs (Apalache, i128, all operands): limbs recombine to the exact 256-bit product", "AP_MulLimbs.tla", "CInitS", "Recombine"),
    d_apa("MulLimbs (Apalache, u128, all operands): limbs recombine to the exact 256-bit product", "AP_MulLimbs.tla", "CInitU", "Recombine"),
    d_apa("MulLimbs (Apalache, i128): the repaired shift_lo_up assertion cannot fire", "AP_MulLimbs.tla", "CInitS", "AssertFixed"),
    d_apa("MulLimbs (Apalache, i128): the ORIGINAL assertion is reachable (carry = -1)", "AP_MulLimbs.tla", "CInitS", "AssertOriginal",
          expect="violated"),
]
D_MUL += [
    d_apa("MulLimbs (Apalache, all operands): ExactP = Exact (distributivity of the partial products)", "AP_MulLimbs.tla", "CInitS", "Distrib"),
    d_apa("MulLimbs (Apalache, u128, f = 64): combine_lo_then_shl = floor(product / 2^f) mod 2^128 and exact flag", "AP_MulLimbs.tla", "CInitU", "Combine"),
    d_apa("MulLimbs (Apalache, u128, f = 1)", "AP_MulLimbs.tla", "CInitU1", "Combine"),
    d_apa("MulLimbs (Apalache, u128, f = 127)", "AP_MulLimbs.tla", "CInitU127", "Combine"),
    d_apa("MulLimbs (Apalache, i128, f = 127)", "AP_MulLimbs.tla", "CInitS127", "Combine"),
    d_apa("MulLimbs (Apalache, i128, f = 64) [may time out: reported as inconclusive]", "AP_MulLimbs.tla", "CInitS", "Combine", thorough_only=True),
]
D_DIV = [
    d_tlc("DivHalf (TLC, H=8, every (d, r, next half)): quotient digit and remainder exact", "DivHalf", "DivHalf_tlc_8.cfg", "int", subdir="apa"),
    d_tlc("DivHalf (TLC, H=16)", "DivHalf", "DivHalf_tlc_16.cfg", "int", subdir="apa", thorough_only=True),
    d_apa("DivHalf (Apalache, all operands at H = 2^64)", "AP_DivHalf.tla", "CInit", "StepExact"),
]
D_EUCLID = [
    d_tlc("MC_Euclid: as-coded div_euclid family = M wherever the truncated quotient fits (exact region of the finding)",
          "MC_Euclid", "MC_Euclid.cfg", "int"),
    d_tlc("MC_Euclid_refute: as-coded = M everywhere", "MC_Euclid", "MC_Euclid_refute.cfg", "int", expect="violated"),
]
D_CMP = [
    d_tlc("MC_Cmp: comparison as repaired = exact rational comparison, 900 layout pairs x all values", "MC_Cmp", "MC_Cmp.cfg", "int"),
    d_tlc("MC_Cmp_refute: comparison as originally coded", "MC_Cmp", "MC_Cmp_refute.cfg", "int", expect="violated"),
    d_tlc("MC_Cmp (deep): all 196 layout pairs of width 6 x all values", "MC_Cmp", "MC_Cmp_deep.cfg", "int", thorough_only=True),
    d_tlc("MC_Cmp (deep): all 324 pairs of the 18 shipping 8-bit layouts x all 65 536 value pairs", "MC_Cmp", "MC_Cmp_deep8.cfg", "int",
          thorough_only=True),
]
D_FMT = [
    d_tlc("MC_Fmt: decimal digit generation as repaired = correctly rounded, every value of the 8-bit layouts", "MC_Fmt", "MC_Fmt.cfg", "big"),
    d_tlc("MC_Fmt_refute: with the original near-zero shortcut", "MC_Fmt", "MC_Fmt_refute.cfg", "big", expect="violated"),
]
D_WRAPVM = [d_tlc("MC_WrapVM: register machine, all programs of <= 3 steps on 9 small layouts (TypeOK, RingHom, OnlyZeroDiv)",
                  "MC_WrapVM", "MC_WrapVM.cfg", "int")]
D_FLOAT = [
    d_tlc("MC_Float: to_float_kind + to_fixed_helper + from_float_helper and fixed/float comparison as repaired = M, every bit pattern "
          "of two miniature float formats x every value of 64 layouts", "MC_Float", "MC_Float.cfg", "int"),
    d_tlc("MC_Float_refute_max: with the original 'exp == EXP_MAX' test", "MC_Float", "MC_Float_refute_max.cfg", "int", expect="violated"),
    d_tlc("MC_Float_refute_zero: with -0.0 reported negative", "MC_Float", "MC_Float_refute_zero.cfg", "int", expect="violated"),
    d_tlc("MC_Float_refute_sub: with subnormals read at EXP_MIN - 1", "MC_Float", "MC_Float_refute_sub.cfg", "int", expect="violated"),
]
D_CONV = [
    d_tlc("MC_Conv: to_fixed_helper (shift arms relative to the widest word) + overflowing_/saturating_from_fixed as coded = "
          "floor shift / wrap / clamp, lost-bits direction, 1296 layout pairs x all values", "MC_Conv", "MC_Conv.cfg", "int"),
    d_tlc("MC_Conv_refute: without the sign test on the cast", "MC_Conv", "MC_Conv_refute.cfg", "int", expect="violated"),
]
CONV_CFGS = ['I0F128_i8', 'I0F128_u128', 'U0F128_I128F0', 'u8_U0F128', 'i8_I0F128', 'U128F0_U0F128', 'I128F0_I0F128', 'I64F64_I32F32', 'I32F32_I64F64', 'U64F64_I64F64', 'I64F64_U64F64', 'I1F127_I127F1', 'I127F1_I1F127', 'U1F127_U128F0', 'I1F127_I128F0', 'I16F16_U8F8', 'U8F8_I16F16', 'I8F8_I0F16', 'i64_I40F88', 'u128_I40F88', 'I40F88_i64', 'I40F88_u128', 'I4F4_I0F128', 'I0F8_I128F0']
CONV_QUICK = ['I0F128_i8', 'u8_U0F128', 'I64F64_I32F32', 'U64F64_I64F64', 'I1F127_I127F1', 'I127F1_I1F127', 'I40F88_u128', 'I16F16_U8F8']
D_CONVINT = [d_apa("ConvInt (Apalache, EVERY source value, %s): to_fixed_helper's shift arms + overflowing_/saturating_from_fixed as coded = "
                   "floor(v * 2^(fd-fs)) wrapped, flagged and clamped" % n.replace("_", " -> "), "AP_ConvInt.tla", "C_" + n, "AllOk",
                   thorough_only=(n not in CONV_QUICK)) for n in CONV_CFGS] + [
             d_apa("ConvInt: non-vacuity, I64F64 -> I32F32 can overflow", "AP_ConvInt.tla", "C_I64F64_I32F32", "NeverOverflows", expect="violated")]
CMP_QUICK = ['U64F64_I64F64', 'I64F64_U64F64', 'I0F128_i8', 'u8_U0F128', 'I64F64_I32F32', 'I16F16_U8F8']
D_CMPINT = [d_apa("CmpInt (Apalache, EVERY pair of values, left operand %s, right operand %s): comparison as coded (conversion, cast, sign "
                  "check, lost-bits tie-break) = comparison of the exact values" % (n.split("_")[1], n.split("_")[0]), "AP_CmpInt.tla", "C_" + n,
                  "CmpOk", thorough_only=(n not in CMP_QUICK), init="InitC", next_="NextC") for n in CONV_CFGS] + [
            d_apa("CmpInt: non-vacuity, the sign check is needed for U64F64 vs I64F64", "AP_CmpInt.tla", "C_U64F64_I64F64", "NoSignCase",
                  expect="violated", init="InitC", next_="NextC"),
            d_apa("CmpInt: non-vacuity, lost bits break a tie for I64F64 vs I32F32", "AP_CmpInt.tla", "C_I64F64_I32F32", "NoLostTie",
                  expect="violated", init="InitC", next_="NextC")]
def d_mathalg(pid, what):
    return d_tlc("MC_MathAlg (%s): the transcribed algorithms of transcendental.rs (tla/alg/MathAlg.tla, fidelity to the code measured by "
                 "./check G06) meet the acceptance rules of C12 / %s / C17 for EVERY operand of I5F5, I5F7, I9F3 (and U4F6 for sqrt)" % (what, pid),
                 "MC_MathAlg", "MC_MathAlg_%s.cfg" % pid, "big", workers=8)
D_MATHALG_REFUTE = d_tlc("MC_MathAlg_refute: exp with the original frac_nbits() term count, I9F3", "MC_MathAlg", "MC_MathAlg_refute.cfg", "big",
                         expect="violated")
ROUND_LAYS = ["I64F64", "I0F128", "I1F127", "U1F127", "I128F0", "I32F32",
              "U64F64", "U0F128", "I127F1", "I2F126", "U32F32", "I0F64", "I1F63", "I16F16", "I1F31", "U0F32", "I8F8", "I0F16", "U1F15"]
D_ROUNDINT = [d_apa("RoundInt (Apalache, EVERY value of %s): ceil / floor / round / round_ties_to_even as coded (masks, 0- and 1-integer-bit "
                    "cases) = <<exact rounding mod 2^w, overflow flag>>, round_to_zero exact" % n, "AP_RoundInt.tla", "C_" + n, "AllOk",
                    thorough_only=(i >= 6)) for i, n in enumerate(ROUND_LAYS)] + [
              d_apa("RoundInt: non-vacuity, ceil overflows somewhere", "AP_RoundInt.tla", "C_I64F64", "NeverOverflows", expect="violated")]
def _trig(inv, cinit, what, expect="ok", thorough_only=False):
    return d_apa("TrigReduce (Apalache, EVERY angle |x| <= 200, %s): %s" % ({"CInit23": "I9F23", "CInit32": "f = 32", "CInit64": "f = 64", "CInit88": "f = 88"}[cinit], what),
                 "AP_TrigReduce.tla", cinit, inv, expect=expect, thorough_only=thorough_only)
D_TRIG_FITS = [_trig("Fits", "CInit23", "no intermediate of the reduction leaves a 9-integer-bit type (sin, cos = sin(x + pi/2), tan = f(2x) for |x| <= 100)"),
               _trig("Fits", "CInit64", "the same with the constants widened to 64 fractional bits")]
D_TRIG = [
    d_tlc("MC_TrigConst (TLC, 200-bit arithmetic): the I9F23 constants are the truncations of 2 pi, pi, pi/2; the 23-bit table is the "
          "U0F128 table truncated and that table is atan(2^-i) to 2^-53; reduction + mirror + CORDIC residual + table truncation < 2^-17; "
          "gain constant within 2^-32", "MC_TrigConst", "MC_TrigConst.cfg", "big", workers=1),
    _trig("InRange", "CInit23", "the angle handed to the CORDIC rotation lies in [-pi/2, pi/2]"),
    _trig("Period", "CInit23", "the reduced angle is x - k TWO_PI with |k| <= 32"),
    _trig("Mirror", "CInit23", "the mirrored angle is a, 2 FRAC_PI_2 - a or -2 FRAC_PI_2 - a"),
    _trig("NoMirrorUp", "CInit23", "non-vacuity: the mirror branch is reachable", expect="violated"),
    _trig("InRange", "CInit64", "[-pi/2, pi/2] with the constants widened to 64 fractional bits"),
    _trig("InRange", "CInit32", "[-pi/2, pi/2], f = 32", thorough_only=True),
    _trig("InRange", "CInit88", "[-pi/2, pi/2], f = 88", thorough_only=True),
    _trig("Period", "CInit64", "period count, f = 64", thorough_only=True),
    _trig("Mirror", "CInit64", "mirror, f = 64", thorough_only=True),
] + [d_apa("CordicZ (Apalache, EVERY start angle in [-pi/2, pi/2] and every table truncation, %s): after the 24 rotations the residual angle "
           "is at most 16 ulp of I9F23" % n, "AP_CordicZ.tla", ci, "Converges", thorough_only=to)
     for ci, n, to in [("CInit23", "I9F23", False), ("CInit64", "f = 64", False), ("CInit32", "f = 32", True), ("CInit88", "f = 88", True)]] + [
    d_apa("CordicZ: non-vacuity, the residual is not always zero", "AP_CordicZ.tla", "CInit23", "Exact", expect="violated")]
DESIGNS = {
    "C01": [D_SEM] + D_MUL + D_DIV + D_SEM_DEEP, "C02": [D_SEM] + D_MUL[:2] + D_MUL[6:11] + D_SEM_DEEP, "C03": [D_SEM] + D_CMP + D_FLOAT[:1] + D_CMPINT, "C04": [D_SEM] + D_CONV + D_CONVINT, "C05": D_FLOAT,
    "C06": [D_SEM, d_tlc("MC_Round: rounding methods as coded (masks, 0/1 integer-bit special cases) = exact roundings, every value, "
                         "68 layouts of widths 2..6 and 8", "MC_Round", "MC_Round.cfg", "int"),
            d_tlc("MC_Round (deep): widths 7, 9, 10, 12", "MC_Round", "MC_Round_deep.cfg", "int", thorough_only=True)] + D_ROUNDINT + D_SEM_DEEP,
    "C07": [D_SEM] + D_EUCLID + D_SEM_DEEP, "C09": D_FMT,
    "C08": [d_tlc("MC_Parse: tokeniser as coded = grammar, every string up to length 5 over 10 symbols x 4 radices", "MC_Parse",
                  "MC_Parse_5.cfg", "int")], "C11": D_MUL[2:6], "C18": D_WRAPVM,
    "C12": D_TRIG_FITS, "C16": D_TRIG + D_TRIG_FITS,
    "C13": [d_mathalg("C13", "sqrt")], "C14": [d_mathalg("C14", "log2, ln")], "C15": [d_mathalg("C15", "exp, powi"), D_MATHALG_REFUTE,
            d_tlc("MC_MathAlg (pow): exp(y ln x) as transcribed meets PowOk / TotalOk / WorkOk for every base and exponents "
                  "-2.5 .. 3 on the same layouts", "MC_MathAlg", "MC_MathAlg_pow.cfg", "big", workers=8, thorough_only=True)],
}


ARITH_OPS = {
    "C01": "mul,div",
    "C02": "neg,abs,add,sub,mul,div,mul_int,div_int",
    "C06": "ceil,floor,round,round_ties_to_even,round_to_zero,int,frac",
    "C07": "rem,rem_euclid,div_euclid,rem_int,rem_euclid_int,div_euclid_int",
}

TRIV_A = re.compile(r'"a":(0|\[0\]),')
TRIV_B = re.compile(r'"(b|n)":(0|\[0\]|1|\[0,1\]),')


def nontrivial_arith(line):
    return not TRIV_A.search(line) and not TRIV_B.search(line)


def plan_arith(pid, tier, seed):
    ops = ARITH_OPS[pid]
    n = "150" if tier == "quick" else "3000"
    gens = [
        dict(name="w8", profile="unchecked", bin="arith", dom="int", per_shard=25000,
             args=["--topic", ops, "--widths", "8", "--tier", tier, "--seed", str(seed)]),
        dict(name="wide", profile="unchecked", bin="arith", dom="big", per_shard=6000,
             args=["--topic", ops, "--widths", "16,32,64,128", "--big", "--tier", "quick", "--seed", str(seed), "--n", n]),
    ]
    # the same wide layouts once more under debug assertions + overflow checks (other random pairs: seed + 1): "no form panics" and
    # the exact results are claimed for every build profile; the plain operator may panic there only where R does not fit
    gens.append(dict(name="widec", profile="checked", bin="arith", dom="big", per_shard=6000,
                     args=["--topic", ops, "--widths", "16,32,64,128", "--big", "--tier", "quick", "--seed", str(seed + 1),
                           "--n", str(int(n) // 4)]))
    # light sweep over ALL 488 layouts wider than 8 bits (every fractional-bit count 0..=width, both signs)
    gens.append(dict(name="sweep", profile="unchecked", bin="sweep", dom="big", per_shard=5000,
                     args=["--topic", ops, "--big", "--seed", str(seed), "--n", {"C01": "60", "C02": "24", "C06": "30", "C07": "30"}[pid]
                           if tier == "quick" else "400"]))
    return dict(
        bins=["arith", "sweep"], profiles=["unchecked", "checked"], gens=gens, designs=[],
        nontrivial=nontrivial_arith,
        rule="8-bit layouts (all 18): every operand pair (thorough) or a 1/8 stratified subset plus the pairwise "
             "boundary lattice (quick), every value for unary operations; 16/32/64/128-bit layouts (22 per width: "
             "f in {0,1,2,w/4,w/2-1,w/2,w/2+1,3w/4,w-2,w-1,w} x both signs): pairwise boundary lattice, pairs with "
             "correlated magnitudes and random bit patterns; plus a light sweep over ALL 488 layouts wider than 8 bits (every "
             "fractional-bit count 0..=width, both signs) with a seeded sample of the lattice/correlated/random pairs per operation.  "
             "Each event records every form the API provides "
             "(plain, checked, saturating, wrapping, overflowing) of one call and is judged by TLC against the exact "
             "result R of layer M (tla/sem/Sem.tla).  Non-trivial: both operands different from 0 (and the right "
             "operand different from 1); distinct by event content.",
        assumptions=["TLC, the BigInt.tla library (self-checked by MC_BigInt) and the JSON encoders of the harness are trusted",
                     "wide layouts are covered on the listed 88 layouts and generated operands, not exhaustively",
                     "events are produced by the harness built from /repo's working tree in the 'unchecked' profile "
                     "(no debug assertions / overflow checks); profile dependence is C11's subject"],
    )


def plan_conv(pid, tier, seed):
    topics = {"C03": ("cmp,ord", "cmp,cmpf,ord"), "C04": ("conv,bool,from", "conv,bool,from"),
              "C05": (None, "f2x,x2f"), "C10": ("codec", "codec")}[pid]
    n = "30" if tier == "quick" else "400"
    gens = []
    if topics[0]:
        gens.append(dict(name="w8", profile="unchecked", bin="conv", dom="int", per_shard=30000,
                         args=["--topic", topics[0], "--tier", tier, "--seed", str(seed)]))
    gens.append(dict(name="wide", profile="unchecked", bin="conv", dom="big", per_shard=5000,
                     args=["--topic", topics[1], "--big", "--tier", tier, "--seed", str(seed), "--n", n]))
    # light sweep over all 506 layouts (each against i8 / i64 / u128, f32 / f64, I40F88 / U0F128, codec)
    gens.append(dict(name="convall", profile="unchecked", bin="convsweep", dom="big", per_shard=5000,
                     args=["--topic", topics[1], "--tier", "quick", "--seed", str(seed)]))
    if pid != "C10":
        # the same sweep under debug assertions + overflow checks (other random values: seed + 1): the policy forms must not panic
        # and the results must be the same in every build profile
        gens.append(dict(name="convallc", profile="checked", bin="convsweep", dom="big", per_shard=5000,
                         args=["--topic", topics[1], "--tier", "quick", "--seed", str(seed + 1)]))
    rules = {
        "C03": "every ordered pair of the 18 8-bit layouts x (1/64 stratified value pairs + pairwise boundary lattice + values adjacent "
               "to the other operand; thorough: all 65 536 value pairs); 288 cross-width layout pairs (all 25 width pairs, f in {0,w/2,w} "
               "and boundary f, mixed signs); every listed layout x 12 primitive integer types, both operand orders; every listed layout x "
               "f32/f64 patterns (exponents around the layout's range densely, others sampled; mantissa classes; floats adjacent to lattice "
               "values and ties; +-0, subnormals, infinities, NaNs with payloads), each compared with the nearest fixed values; Ord/Hash "
               "within one type. Observables ==, !=, <, <=, >, >=, partial_cmp judged against the exact rational comparison CmpVal/CmpFloat.",
        "C04": "fixed->fixed for all 324 8-bit layout pairs x all 256 values and 288 cross-width pairs, fixed<->12 integer types and bool, "
               "to_num and from_num call paths, five forms each; From/LossyFrom for ~1100 impls that exist (boundary integer-bit counts).",
        "C05": "float->fixed: f32/f64 patterns as for C03 x 106 layouts, both call paths, five forms; fixed->float: all values of 8-bit "
               "layouts, lattice/random and tie patterns (24/53 significant bits +- tails) of wider layouts; results compared bit for bit "
               "with FixToFloatBits / FloatToFixR (round to nearest even on exact integers).",
        "C10": "every value of every 8-bit layout; lattice + random values of 88 wider layouts: encode, encoded_size, max_encoded_len, "
               "decode of exact / every short prefix / long input, to/from le/be/ne bytes, to/from bits, integer encoding, serde JSON "
               "struct and sequence forms, Wrapping<F> serde; each of the 506 type aliases names the layout it spells (signedness, width = "
               "size_of, FRAC_NBITS / INT_NBITS; the name is parsed in TLA+).",
    }
    return dict(
        bins=["conv", "convsweep"], profiles=["unchecked"] if pid == "C10" else ["unchecked", "checked"], gens=gens, designs=[],
        nontrivial=lambda line: '"a":0,' not in line and '"a":[0],' not in line,
        rule=rules[pid] + " Plus a light sweep over ALL 506 layouts (each against i8/i64/u128, f32/f64, I40F88/U0F128 and the codec), "
             "for C03..C05 under both build profiles. "
             "Non-trivial: left operand / source value different from 0; distinct by event content.",
        assumptions=["TLC, BigInt.tla (self-checked) and the harness's JSON encoders are trusted",
                     "isize/usize are 64-bit in the harness (x86-64); ne bytes = le bytes on this target",
                     "wide layouts and floats are covered on generated operands, not exhaustively",
                     "Wrapping<F> has no SCALE impl in this crate; its encoding is that of the wrapped value (.0)"],
    )


def plan_wrap(pid, tier, seed):
    n8, nw = ("120", "60") if tier == "quick" else ("3000", "1500")
    gens = []
    for prof in ("unchecked", "checked"):
        gens.append(dict(name="wrap8_" + prof, profile=prof, bin="wrap", dom="int", per_shard=20000,
                         args=["--tier", tier, "--seed", str(seed), "--n", n8]))
        gens.append(dict(name="wrapwide_" + prof, profile=prof, bin="wrap", dom="big", per_shard=4000,
                         args=["--big", "--tier", tier, "--seed", str(seed), "--n", nw]))
    # spec -> impl: programs generated by TLC simulation of the closed specification tla/vm/WrapVM.tla
    # (tla/mc/Gen_WrapVM; corpus committed, regenerated by the thorough tier) replayed on the real Wrapping<F>
    corpus = os.path.join(core.ROOT, "corpus", "wrap_programs.ndjson")
    for prof in ("unchecked", "checked"):
        gens.append(dict(name="wrapgen_" + prof, profile=prof, bin="wrap", dom="int", per_shard=20000,
                         args=["--tier", tier, "--seed", str(seed), "--replay", corpus], replayable=False))
    gens.append(dict(name="parse_wrapping", profile="unchecked", bin="text", dom="big", per_shard=1500,
                     args=["--topic", "ties,dec,radix,malformed", "--tier", "quick", "--seed", str(seed)]))
    return dict(
        bins=["wrap", "text"], profiles=["unchecked", "checked"], gens=gens, designs=[],
        nontrivial=lambda line: line.startswith('{"k":"w",') and '"r":[0,0]' not in line and '"r":[0,[0]]' not in line,
        rule="random programs of 14 steps over four registers of Wrapping<F> (3 loads from the boundary lattice, then +,-,*,/,%, "
             "&,|,^, div/rem_euclid, *,/,% and Euclidean ops by an integer, << and >> with all 12 amount types and negative / huge "
             "amounts, neg, not, abs, signum, next_power_of_two, rounding methods, int/frac, Sum, Product, from_num; by-value, "
             "by-reference and assigning forms) on all 18 8-bit layouts and 18 wider layouts, run under BOTH build profiles. TLC threads "
             "the register state itself (WRegNext) and recomputes every step from its own registers. Non-trivial: an operation step "
             "with a non-zero result; distinct by event content.",
        assumptions=["TLC, BigInt.tla and the harness's JSON encoders are trusted",
                     "int()/frac() on layouts without integer bits are not pinned down by the property and only required not to panic",
                     "Wrapping<F> parsing (FromStr, from_str_binary/octal/hex) is judged on C08's literal corpus against Wrap(ParseR)"],
    )


ALL_ARITH = "neg,abs,signum,add,sub,mul,div,rem,div_euclid,rem_euclid,mul_int,div_int,rem_int,div_euclid_int,rem_euclid_int," \
            "ceil,floor,round,round_ties_to_even,round_to_zero,int,frac"


def pair_profiles(traces, wdir, tier, seed):
    """pair the unchecked / checked traces of the same corpus line by line into 'pair' events"""
    by = {}
    for path, dom, per in traces:
        name = os.path.basename(path)[:-7]
        base, prof = name.rsplit("_", 1)
        by.setdefault(base, {})[prof] = (path, dom, per)
    out = []
    for base, d in sorted(by.items()):
        (pu, dom, per), (pc, _, _) = d["u"], d["c"]
        keep = 1
        if tier == "quick":
            keep = {"arith8": 40, "conv8": 24, "arithwide": 4, "convwide": 3, "text": 2, "wrap8": 6, "wrapwide": 3}.get(base, 1)
        po = os.path.join(wdir, base + "_pair.ndjson")
        n = 0
        with open(pu) as fu, open(pc) as fc, open(po, "w") as fo:
            seen = {}
            for i, (lu, lc) in enumerate(zip(fu, fc)):
                if keep > 1:
                    # sample within each (event kind, operation, integer type) class, always keeping the first 40 of a
                    # class, so that rare kinds of events (bool conversions, From impls, ...) are never sampled away
                    m = core.KIND_RE.search(lu[:300])
                    key = (m.group(0) if m else "") + ('bool' if '"it":"bool"' in lu[:120] else '')
                    n = seen.get(key, 0)
                    seen[key] = n + 1
                    if n >= 40 and (n + seed) % keep != 0:
                        continue
                fo.write('{"k":"pair","u":%s,"c":%s}\n' % (lu.rstrip("\n"), lc.rstrip("\n")))
                n += 1
            if fu.readline() or fc.readline():
                # the generators are deterministic and independent of outcomes: a different number of events
                # means the library behaved differently under the two profiles while generating operands
                fo.write('{"k":"pair","u":{"k":"length","base":"%s"},"c":{"k":"mismatch"}}\n' % base)
        os.remove(pu)
        os.remove(pc)
        out.append((po, dom, max(1000, per // 2)))
    return out


def plan_profile(pid, tier, seed):
    n = "60" if tier == "quick" else "1500"
    nc = "12" if tier == "quick" else "200"
    nw8, nww = ("120", "60") if tier == "quick" else ("2000", "1000")
    gens = []
    for prof, tag in (("unchecked", "u"), ("checked", "c")):
        gens += [
            dict(name="arith8_" + tag, profile=prof, bin="arith", dom="int", per_shard=25000,
                 args=["--topic", ALL_ARITH, "--widths", "8", "--tier", tier, "--seed", str(seed)]),
            dict(name="arithwide_" + tag, profile=prof, bin="arith", dom="big", per_shard=6000,
                 args=["--topic", ALL_ARITH, "--widths", "16,32,64,128", "--big", "--tier", "quick", "--seed", str(seed), "--n", n]),
            dict(name="conv8_" + tag, profile=prof, bin="conv", dom="int", per_shard=30000,
                 args=["--topic", "cmp,conv,bool,from,ord,codec", "--tier", tier, "--seed", str(seed)]),
            dict(name="convwide_" + tag, profile=prof, bin="conv", dom="big", per_shard=5000,
                 args=["--topic", "cmp,cmpf,conv,bool,from,f2x,x2f", "--big", "--tier", tier, "--seed", str(seed), "--n", nc]),
            dict(name="wrap8_" + tag, profile=prof, bin="wrap", dom="int", per_shard=20000,
                 args=["--tier", tier, "--seed", str(seed), "--n", nw8]),
            dict(name="wrapwide_" + tag, profile=prof, bin="wrap", dom="big", per_shard=4000,
                 args=["--big", "--tier", tier, "--seed", str(seed), "--n", nww]),
        ]
    for prof, tag in (("unchecked", "u"), ("checked", "c")):
        gens += [
            dict(name="math_" + tag, profile=prof, bin="math", dom="big", per_shard=6000,
                 args=["--topic", "sqrt,log2,ln,exp,pow,powi,sin,cos,tan", "--tier", tier, "--seed", str(seed)]),
            dict(name="text_" + tag, profile=prof, bin="text", dom="big", per_shard=6000,
                 args=["--topic", "ties,dec,radix,malformed,fmt", "--tier", tier, "--seed", str(seed)]),
        ]
    return dict(
        bins=["arith", "conv", "wrap", "math", "text"], profiles=["unchecked", "checked"], gens=gens, designs=[],
        post_gen=[pair_profiles],
        nontrivial=lambda line: '"a":0,' not in line and '"a":[0],' not in line,
        rule="the union corpus of the arithmetic (22 operations x all forms), comparison, conversion, float, codec, Wrapping, "
             "parsing, formatting and transcendental generators is recorded twice, by the harness built with debug-assertions+overflow-checks on ('checked') and off "
             "('unchecked'); the two traces are paired record by record and TLC requires every outcome slot to be identical, or the "
             "checked build to panic where PanicAllowed holds (un-prefixed form whose exact result does not fit, zero divisor). "
             "Quick: a 1/40 (8-bit arithmetic), 1/24 (8-bit conversions), 1/4 and 1/3 (wide) sample of the pairs. Non-trivial: operand a != 0.",
        assumptions=["only native x86-64 builds can be executed here; the Wasm build of the statement is not exercised",
                     "both builds use opt-level 0; the profiles differ exactly in debug-assertions and overflow-checks",
                     "TLC, BigInt.tla and the harness's JSON encoders are trusted"],
    )


def gen_tie_literals(wdir, tier, seed):
    """spec -> impl: TLC (tla/mc/Gen_Ties, exact BigInt arithmetic) prints the decimal expansions of rounding ties and their
    neighbours; written to <wdir>/tie_literals.ndjson for the text bin's --replay mode"""
    r = core.tlc_model("Gen_Ties", "Gen_Ties.cfg", "big", workers=1, timeout=900)
    lits = []
    for m in re.finditer(r'<<"LIT", "(.*)">>', r["out"]):
        lits.append(m.group(1).replace('\\"', '"'))
    if len(lits) < 1000:
        raise core.ToolError("Gen_Ties produced only %d literals:\n%s" % (len(lits), r["out"][-2000:]))
    with open(os.path.join(wdir, "tie_literals.ndjson"), "w") as f:
        f.write("\n".join(lits) + "\n")
    log("[C08] %d tie literals generated by TLC from the specification" % len(lits))


def plan_text(pid, tier, seed):
    topics = {"C08": "tokens,ties,dec,radix,malformed", "C09": "fmt"}[pid]
    gens = [dict(name="text", profile="unchecked", bin="text", dom="big", per_shard=2500 if pid == "C09" else 1500,
                 args=["--topic", topics, "--tier", tier, "--seed", str(seed)])]
    # light sweep over all 506 layouts
    gens.append(dict(name="textall", profile="unchecked", bin="text", dom="big", per_shard=2500,
                     args=["--topic", "ties,dec,radix" if pid == "C08" else "fmt", "--all", "--tier", "quick", "--seed", str(seed)]))
    # under debug assertions + overflow checks as well ("no input makes the parser panic", "no value or flag combination panics"):
    # the 8- and 16-bit layouts of the main corpus and the all-layout sweep, other random choices (seed + 1)
    gens.append(dict(name="textc", profile="checked", bin="text", dom="big", per_shard=2500 if pid == "C09" else 1500,
                     args=["--topic", topics, "--tier", "quick", "--seed", str(seed + 1), "--widths", "8,16"]))
    gens.append(dict(name="textallc", profile="checked", bin="text", dom="big", per_shard=2500,
                     args=["--topic", "ties,dec,radix" if pid == "C08" else "fmt", "--all", "--tier", "quick", "--seed", str(seed + 1)]))
    rules = {
        "C08": "106 layouts x radix 10/2/8/16: (a) tokeniser: every string of length <= 3 (thorough 5) over the alphabet "
               "{+,-,.,0,1,7,9,a,x,space} on two layouts, a list of 70 malformed / edge strings (empty, signs only, two points, "
               "misplaced signs, non-ASCII digits, control characters, exponents) on every layout; (b) decimal tie literals: the "
               "exact expansion of (2k+1)/2^(f+1) for boundary and random k, its proper prefixes, +-1 in the last place, the tie "
               "followed by 0..01 / 000 / 9999, with sign; (c) random decimals with 0..60 (occasionally 200) fractional digits and "
               "integer parts at the range edge; (d) exact binary/octal/hex expansions of lattice values with half-digit tails and "
               "integer parts at/over the overflow edge; (e) 2 500-digit (thorough: 10 000-digit) literals; (f) tie literals computed by TLC from the specification (tla/mc/Gen_Ties) and replayed. from_str*, saturating_, wrapping_, overflowing_ "
               "forms judged against ParseR = RNE of the exact rational of the literal (tla/sem/SemText.tla).",
        "C09": "every value of every 8-bit layout and lattice+random values of 88 wider layouts x Display/Debug/Binary/Octal/"
               "LowerHex/UpperHex x precisions {none,0,1,3,8,20,(200)} ({none,1,3} for the radix-2^k traits) x 3 of 14 flag templates "
               "(width, fill, <^> alignment, +, #, 0) per event; the unflagged body must be the correctly rounded expansion at the "
               "digits shown (and parse back exactly when the precision is automatic, also through the real FromStr); flagged "
               "outputs must be pad(sign ++ prefix ++ body).",
    }
    pre = []
    if pid == "C08":
        pre = [gen_tie_literals]
        gens.append(dict(name="tlcties", profile="unchecked", bin="text", dom="big", per_shard=1500, replayable=False,
                         args=["--replay", os.path.join(core.WORK, pid, "tie_literals.ndjson")]))
    return dict(
        bins=["text"], profiles=["unchecked", "checked"], gens=gens, designs=[], pre_gen=pre,
        nontrivial=lambda line: '"a":[0],' not in line and '"s":[]' not in line,
        rule=rules[pid] + " Plus a light sweep (a few literals / values per layout) over ALL 506 layouts; the 8/16-bit part of the corpus "
             "and the sweep are recorded under the checked build profile as well. "
             "Non-trivial: value / literal not empty or zero; distinct by event content.",
        assumptions=["TLC, BigInt.tla and the harness's JSON encoders are trusted",
                     "format strings are compile-time in Rust: 14 flag templates x 6 traits x {precision, none} are instantiated; width and "
                     "precision are run-time arguments",
                     "the default alignment is not constrained (any split of the padding is accepted)"],
    )


MATH_FNS = {"C12": "sqrt,sqrt16,log2,ln,exp,pow,powi,sin,cos,tan", "C13": "sqrt,sqrt16", "C14": "log2,ln", "C15": "exp,pow,powi",
            "C16": "sin,cos,tan", "C17": "sqrt,sqrt16,log2,ln,exp,pow,sin,cos,tan"}


def plan_math(pid, tier, seed):
    fns = MATH_FNS[pid]
    profs = ["unchecked", "checked"] if pid in ("C12", "C17") else ["unchecked"]
    per = {"C12": 2500, "C13": 1500, "C14": 300, "C15": 400, "C16": 250, "C17": 8000}[pid]
    gens = [dict(name="math_" + p, profile=p, bin="math", dom="big", per_shard=per,
                 args=["--topic", fns, "--tier", tier, "--seed", str(seed)]) for p in profs]
    # light sweep over 26 further signed (+5 unsigned, sqrt) layouts: limb-boundary neighbourhoods of the 128-bit family
    gens += [dict(name="mathsweep_" + p, profile=p, bin="mathsweep", dom="big", per_shard=per,
                  args=["--topic", fns, "--tier", tier, "--seed", str(seed)]) for p in profs]
    rules = {
        "C12": "all nine functions on the 10 signed + 4 unsigned (sqrt) LT layouts and 6 widening S->D pairs, under both build profiles: "
               "outcome kind must be Ok/Err (never panic, never the iteration-budget sentinel) for the Result functions, Err where the "
               "request is undefined; sin/cos must return for |x| <= 200 and tan for |x| <= 100 wherever the reference |tan x| <= 64.",
        "C13": "sqrt on EVERY value of the 16-bit layouts U8F8 and I8F8 (thorough: also U4F12 I4F12 U12F4 U16F0 I16F0), on lattice values, every power of two +-3 ulp, random mantissas in every binade, perfect squares +-1 ulp, zero, one, "
               "negative operands; integer certificate max(r-4,0)^2 <= x * 2^(2fD - fS) <= (r+4)^2, exactness at 0 and 1, Err only for "
               "negative operands or operands whose reciprocal does not fit.",
        "C14": "log2 and ln on every exact power of two, 1 +- k ulp, lattice and random mantissas in every binade, non-positive operands; "
               "reference values computed in TLA+ with 200 fractional bits (atanh series, ln 2 = 2 atanh(1/3)).",
        "C15": "exp on operands from 0 to +- the overflow threshold of the destination (dense near it), pow on a base x exponent grid plus "
               "random pairs up to the overflow threshold, powi on lattice/random bases x exponents {0,+-1,+-2,..,+-100,1000,65537,"
               "i32::MIN(+1),+-i32::MAX, random}; references: e^t by Taylor + ten squarings at 200 bits, x^y = exp(y ln x), exact "
               "rational x^n; the reciprocal clause of powi is checked against the recorded powi(x,|n|).",
        "C16": "sin, cos, tan on multiples of pi/4 within +-200 +-3 ulp, random angles in +-200, +-100, +-pi, a stratified sample of the "
               "I9F23 bit patterns, and large angles outside the accuracy domain (not judged here); references: Taylor series at 200 "
               "bits after reduction modulo 2 pi with pi from Machin's formula, all computed in TLA+.",
        "C17": "every function except powi on the C12 corpus, in particular the largest and smallest magnitudes of every layout and "
               "angles 2^k up to the type's maximum; the hook's loop-iteration counter must stay <= 4 * max(wS, wD) + 64 and the "
               "budget sentinel (64 x the bound) must never fire.",
    }
    return dict(
        bins=["math", "mathsweep"], profiles=profs, gens=gens, designs=[],
        nontrivial=lambda line: '"x":[0],' not in line,
        rule=rules[pid] + " Non-trivial: operand different from 0; distinct by event content.",
        assumptions=["TLC and BigInt.tla are trusted; the reference values are computed inside TLA+ (tla/sem/SemMath.tla) with an error "
                     "below 2^-160, and every tolerance is widened by that slack",
                     "layouts: I9F23, I9F55, I9F119, I16F48, I32F32, I41F23, I40F88, I64F64, I96F32, I105F23 (+U9F23, U32F32, U64F64, "
                     "U96F32 for sqrt; powi is not callable with an unsigned destination, which lacks From<I9F23>); light sweep (1/8 of "
                     "the budgets) over I40F24 I33F31 I31F33 I24F40 I17F47 I10F54 I104F24 I97F31 I95F33 I81F47 I73F55 I72F56 I71F57 I69F59 "
                     "I68F60 I67F61 I66F62 I65F63 I63F65 I62F66 I56F72 I48F80 I32F96 I24F104 I16F112 I10F118 (+U40F24 U31F33 U65F63 U67F61 "
                     "U10F118 for sqrt)"],
    )


def plan_growth(pid, tier, seed):
    """growth beyond the 18 listed properties; not claimed in MANIFEST.json; evidence goes to growth/<id>.json"""
    if pid == "G01":
        ops = ",".join("bits_" + o for o in ("and", "or", "xor", "not", "shl", "shr", "count", "rotate", "pow2"))
        gens = [dict(name="bits", profile="unchecked", bin="arith", dom="big", per_shard=6000,
                     args=["--topic", ops, "--big", "--widths", "8,32,128" if tier == "quick" else "8,16,32,64,128", "--seed", str(seed)])]
        return dict(bins=["arith"], profiles=["unchecked"], gens=gens, designs=[], growth=True,
                    nontrivial=lambda line: '"a":[0],' not in line,
                    rule="growth: & | ^ ! (value and assigning forms), << >> in plain/checked/wrapping/overflowing/assigning forms with amounts "
                         "0..2w and u32::MAX, count_ones/zeros, leading/trailing_zeros, rotate_left/right, is_power_of_two / "
                         "next_power_of_two / checked_next_power_of_two, judged on the two's complement pattern (tla/sem/SemBits.tla)",
                    assumptions=["not one of the 18 listed properties"])
    if pid == "G03":
        topics = ["cmpf,f2x,x2f", "f2xall", "x2fall", "az", "static"]
        per = {"cmpf,f2x,x2f": 3000, "f2xall": 25000, "x2fall": 25000, "az": 2500, "static": 2000}
        gens = [dict(name="opt_" + t.split(",")[0], profile="unchecked", bin="harness_opt/opt", dom="big", per_shard=per[t],
                     args=["--topic", t, "--tier", tier, "--seed", str(seed)]) for t in topics]
        return dict(bins=["opt"], crate="harness_opt", profiles=["unchecked"], gens=gens, designs=[], growth=True,
                    nontrivial=lambda line: '"a":[0],' not in line and '"fb":[0],' not in line,
                    rule="growth: the crate's optional features.  f16: EVERY half::f16 and half::bf16 bit pattern converted into 6 (thorough 22) "
                         "layouts in all ten from_num / to_fixed forms, EVERY value of every 8-bit layout and of four (thorough: 22) 16-bit "
                         "layouts converted to both formats, sampled conversions / comparisons for 36 layouts of every width, judged by "
                         "the same FloatToFixR / FixToFloatBits / CmpFloat as C03 / C05 with the format parameters of binary16 and bfloat16.  "
                         "az: Cast / CheckedCast / SaturatingCast / WrappingCast / OverflowingCast (trait methods and the az free functions) "
                         "between fixed types, integers and the four float types judged as the to_num family; StaticCast: Some carries the "
                         "converted value and is given only for layout pairs where no source value can overflow",
                    assumptions=["not one of the 18 listed properties", "the half crate's from_bits / to_bits are trusted"])
    if pid == "G06":
        fns = "sqrt,log2,ln,exp,pow,powi,sin,cos,tan"
        gens = [dict(name="af_math", profile="unchecked", bin="math", dom="big", per_shard=300,
                     args=["--topic", fns, "--tier", tier, "--seed", str(seed)]),
                dict(name="af_sweep", profile="unchecked", bin="mathsweep", dom="big", per_shard=300,
                     args=["--topic", fns, "--tier", tier, "--seed", str(seed)])]
        return dict(bins=["math", "mathsweep"], profiles=["unchecked"], gens=gens, designs=[D_MATHALG_REFUTE], growth=True, prop="AF",
                    nontrivial=lambda line: '"x":[0],' not in line,
                    rule="growth: fidelity of the layer-A transcription tla/alg/MathAlg.tla (sqrt, log2, ln, exp, powi as state-free "
                         "recursive loops): every recorded call with S = D of the math and mathsweep corpora must be reproduced bit for bit "
                         "AND tick for tick (loop iterations counted by the hook) unless the transcription says a plain operator "
                         "overflowed; this is what gives the small-width design model MC_MathAlg (attached to C13 / C14 / C15) its meaning. "
                         "A mismatch is a finding about the transcription, not about the library.",
                    assumptions=["not one of the 18 listed properties"])
    if pid == "G05":
        gens = [dict(name="foldpred", profile=pr, bin="harness_opt/opt", dom="big", per_shard=1500,
                     args=["--topic", "fold,pred", "--tier", tier, "--seed", str(seed)]) for pr in ("unchecked", "checked")]
        gens[1]["name"] = "foldpred_checked"
        return dict(bins=["opt"], crate="harness_opt", profiles=["unchecked", "checked"], gens=gens, designs=[], growth=True,
                    nontrivial=lambda line: '"xs":[]' not in line and '"a":[0],' not in line,
                    rule="growth: Sum / Product of the plain fixed types (by value and by reference) equal the exact left fold of + / * "
                         "whenever every intermediate result fits (empty product = 1 where representable), under both build profiles; "
                         "is_negative / is_positive, min_value / max_value / default, and the round trips from_bits(to_bits), "
                         "from_{le,be,ne}_bytes(to_..._bytes), on 36 layouts of every width",
                    assumptions=["not one of the 18 listed properties"])
    if pid == "G04":
        gens = [dict(name="alias", profile="unchecked", bin="harness_opt/opt", dom="big", per_shard=100, args=["--topic", "alias"])]
        return dict(bins=["opt"], crate="harness_opt", profiles=["unchecked"], gens=gens, designs=[], growth=True,
                    nontrivial=lambda line: True,
                    rule="growth: each of the 506 type aliases of src/types.rs names the type it says: I<i>F<f> / U<i>F<f> is signed / "
                         "unsigned (min_value() < 0), occupies i + f bits (size_of), and reports FRAC_NBITS = f, INT_NBITS = i; the name "
                         "is parsed inside TLA+ (AcceptAlias)",
                    assumptions=["not one of the 18 listed properties"])
    gens = [dict(name="consts", profile="unchecked", bin="math", dom="big", per_shard=100, args=["--topic", "consts"])]
    return dict(bins=["math"], profiles=["unchecked"], gens=gens, designs=[], growth=True, nontrivial=lambda line: True,
                rule="growth: each of the 28 constants of src/consts.rs lies within one unit in the last place of its reference value "
                     "computed in TLA+ at 200 fractional bits (pi by Machin, ln 2, e = exp(1), sqrt by integer Newton, quotients thereof)",
                assumptions=["not one of the 18 listed properties"])


PLANS = {
    "G01": lambda t, s: plan_growth("G01", t, s),
    "G02": lambda t, s: plan_growth("G02", t, s),
    "G03": lambda t, s: plan_growth("G03", t, s),
    "G04": lambda t, s: plan_growth("G04", t, s),
    "G05": lambda t, s: plan_growth("G05", t, s),
    "G06": lambda t, s: plan_growth("G06", t, s),
    "C12": lambda t, s: plan_math("C12", t, s),
    "C13": lambda t, s: plan_math("C13", t, s),
    "C14": lambda t, s: plan_math("C14", t, s),
    "C15": lambda t, s: plan_math("C15", t, s),
    "C16": lambda t, s: plan_math("C16", t, s),
    "C17": lambda t, s: plan_math("C17", t, s),
    "C08": lambda t, s: plan_text("C08", t, s),
    "C09": lambda t, s: plan_text("C09", t, s),
    "C11": lambda t, s: plan_profile("C11", t, s),
    "C18": lambda t, s: plan_wrap("C18", t, s),
    "C03": lambda t, s: plan_conv("C03", t, s),
    "C04": lambda t, s: plan_conv("C04", t, s),
    "C05": lambda t, s: plan_conv("C05", t, s),
    "C10": lambda t, s: plan_conv("C10", t, s),
    "C01": lambda t, s: plan_arith("C01", t, s),
    "C02": lambda t, s: plan_arith("C02", t, s),
    "C06": lambda t, s: plan_arith("C06", t, s),
    "C07": lambda t, s: plan_arith("C07", t, s),
}


def _val(j):
    if isinstance(j, list):
        m = 0
        for i, l in enumerate(j[1:]):
            m |= l << (15 * i)
        return -m if j[0] == 1 else m
    return j


def program_script(prog):
    """recorded program (wreset, wload, w events) -> script line for `wrap --replay`"""
    L = prog[0]["L"]
    w = L[1]
    steps = []
    for e in prog[1:]:
        if e["k"] == "wload":
            steps.append(dict(op="load", d=e["d"], rawv=dict(raw=str(_val(e["v"]) % (1 << w)))))
        elif e["k"] == "w":
            st = dict(op=e["op"], d=e["d"], fm=e.get("fm", 0))
            for k in ("a", "b"):
                if k in e:
                    st[k] = e[k]
            if "as" in e:
                st["as"] = e["as"][:2] if len(e["as"]) >= 2 else (e["as"] + e["as"] + [1, 1])[:2]
            if "n" in e:
                n = _val(e["n"])
                if e["op"] in ("shl", "shr", "from_int"):
                    st["n"] = max(-(1 << 62), min((1 << 62), n))
                else:
                    st["rawv"] = dict(raw=str(n % (1 << w)))
            steps.append(st)
    return dict(L=L, steps=steps)


def describe(ev):
    """short human description of an event"""
    L = ev.get("L")
    lay = ""
    if L:
        lay = "%s%dF%d" % ("I" if L[0] else "U", L[1] - L[2], L[2])
    keys = [k for k in ("a", "b", "n", "x", "y", "s", "src") if k in ev]
    return "%s %s %s %s" % (ev.get("k"), ev.get("op", ev.get("fn", "")), lay,
                            " ".join("%s=%s" % (k, json.dumps(ev[k])) for k in keys))[:300]


def run_check(pid, tier, seed, replay=None):
    t0 = time.time()
    plan = PLANS[pid](tier, seed)
    if not plan.get("designs"):
        plan["designs"] = DESIGNS.get(pid, [])
    wdir = os.path.join(core.WORK, pid)
    shutil.rmtree(wdir, ignore_errors=True)
    os.makedirs(wdir, exist_ok=True)
    known, _fixed = core.load_known()
    known = [k for k in known if k.get("property") == pid]
    known_devs = {k["deviation"]: k for k in known}

    tb = core.build(plan["bins"], plan["profiles"], crate=plan.get("crate"))
    log("[%s] harness built in %.0fs" % (pid, tb))

    # ---- design models (layer A vs layer M, exhaustive at small widths / symbolic)
    dstates = dtrans = 0
    design_runs = []
    violations = []
    for d in ([] if replay else plan.get("designs", [])):
        if tier == "quick" and d.get("thorough_only"):
            continue
        r = d["run"](d, tier)
        design_runs.append(dict(model=d["name"], states=r.get("states", 0), transitions=r.get("transitions", 0),
                                result=r["result"], note=r.get("note", "")))
        dstates += r.get("states", 0)
        dtrans += r.get("transitions", 0)
        log("[%s] design model: %s -> %s" % (pid, d["name"], r["result"]))
        if r["result"] == "violated":
            violations.append(dict(kind="design", model=d["name"], detail=r.get("detail", "")[-3000:]))
    # ---- conformance: traces of the real library validated by TLC
    traces = []
    gens = plan["gens"]
    if replay:
        with open(replay) as f:
            rp = json.load(f)
        rfile = os.path.join(wdir, "replay_in.ndjson")
        with open(rfile, "w") as f:
            for ev in rp["events"]:
                f.write(json.dumps(ev) + "\n")
            if rp.get("program"):
                # a step of a Wrapping<F> program: re-run the whole program up to that step (script format of the wrap bin)
                f.write(json.dumps(program_script(rp["program"])) + "\n")
        gens = []
        for g in plan["gens"]:
            if g.get("replayable", True):
                gg = dict(g)
                gg["args"] = [a for a in g["args"]] + ["--replay", rfile]
                gens.append(gg)
    tg = time.time()
    for pre in plan.get("pre_gen", []):
        pre(wdir, tier, seed)
    for g in gens:
        path = core.gen_trace(pid, g["name"], g["profile"], g["bin"], g["args"])
        traces.append((path, g["dom"], g["per_shard"]))
    for post in plan.get("post_gen", []):
        traces = post(traces, wdir, tier, seed)
    log("[%s] traces generated in %.0fs" % (pid, time.time() - tg))
    tv = time.time()
    stats, rejects = core.validate(pid, [(p, d, s) for p, d, s in traces if os.path.getsize(p) > 0],
                                   spec=plan.get("spec", "Trace"), prop=plan.get("prop"))
    log("[%s] %d events validated by TLC in %.0fs (%d shards)" % (pid, stats["events"], time.time() - tv, stats["shards"]))

    # ---- classify
    kf_seen = {}
    for r in rejects:
        if r["dev"] and r["dev"] in known_devs:
            kf_seen.setdefault(r["dev"], []).append(r)
        else:
            violations.append(dict(kind="event", event=r["event"], dev=r["dev"], note=r["note"], program=r.get("program")))
    for dev, rs in kf_seen.items():
        k = known_devs[dev]
        log("KNOWN-FINDING: property=%s %s [%d events explained by the named deviation %s; e.g. %s]"
            % (pid, k["what"], len(rs), dev, describe(rs[0]["event"])))
    nviol = len(violations)
    if violations:
        os.makedirs(core.REPLAYS, exist_ok=True)
        groups = violations[:12]
        for i, v in enumerate(groups):
            evs = [v["event"]] if v["kind"] == "event" else []
            path = core.write_replay(pid, i, evs, dict(seed=seed, tier=tier, kind=v["kind"], program=v.get("program"),
                                                       detail=v.get("detail", ""), model=v.get("model", "")))
            log("VIOLATION property=%s replay=%s" % (pid, path))
            log("   " + (describe(v["event"]) if v["kind"] == "event" else "design model %s violated" % v["model"]))
        if len(violations) > len(groups):
            rest = [v["event"] for v in violations[len(groups):] if v["kind"] == "event"]
            path = core.write_replay(pid, len(groups), rest[:5000], dict(seed=seed, tier=tier, kind="event"))
            log("VIOLATION property=%s replay=%s" % (pid, path))
            log("   (%d further rejected events)" % len(rest))

    # ---- evidence
    paths = [p for p, _, _ in traces]
    total, distinct, nontriv = core.count_distinct(paths, plan.get("nontrivial"))
    samples = []
    for p in paths[:4]:
        samples += core.sample_lines(p, 3, seed)
    cov = dict(
        states=stats["states"] + dstates, transitions=stats["transitions"] + dtrans,
        traces_validated_against_impl=stats["shards"],
        events_validated_against_impl=stats["events"],
        evaluations=total, distinct=distinct, distinct_nontrivial=nontriv,
        rule=plan["rule"], samples=samples[:12] + [dict(design_model=d) for d in design_runs],
        design_models=design_runs, rejected_events=len(rejects), events_by_kind=dict(sorted(core.BY_KIND.items())),
        known_finding_events={d: len(r) for d, r in kf_seen.items()},
        checker_cmd="bin/tlcj <lib> -config tla/vm/Trace.cfg tla/vm/Trace.tla (PROP=%s)" % pid,
        exhaustive=False,
    )
    for k, v in plan.get("extra_cov", {}).items():
        cov[k] = v
    if not replay:      # a replay re-executes a handful of calls; it does not describe the check's coverage
        core.write_evidence(pid, tier, seed, cov, time.time() - t0, nviol, plan["assumptions"],
                            outdir=os.path.join(core.ROOT, "growth") if plan.get("growth") else None)
    # clean bulky traces
    if not os.environ.get("VERIF_KEEP"):
        for p in paths:
            try:
                os.remove(p)
            except OSError:
                pass
    log("[%s] tier=%s events=%d rejects=%d known=%d violations=%d wall=%.0fs"
        % (pid, tier, stats["events"], len(rejects), sum(len(r) for r in kf_seen.values()), nviol, time.time() - t0))
    return 1 if nviol else 0
