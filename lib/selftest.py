"""./check selftest -- demonstrates that the specification is bound to the code:
small traces recorded from the real library are accepted, and the same traces with ONE recorded
field corrupted are rejected at exactly that event.  Also smoke-tests both number domains."""
import json, os, shutil
import core
from core import log


def _validate(path, dom, prop):
    stats, rej = core.validate("selftest", [(path, dom, 10 ** 9)], prop=prop)
    return stats, rej


def _corrupt(path, out, pred, mut):
    """copy path to out, applying mut to the first event satisfying pred; returns its 1-based line"""
    hit = None
    with open(path) as f, open(out, "w") as g:
        for i, line in enumerate(f, 1):
            ev = json.loads(line)
            if hit is None and pred(ev):
                mut(ev)
                hit = i
            g.write(json.dumps(ev, separators=(",", ":")) + "\n")
    return hit


def main(tier, seed):
    core.build(["arith", "wrap", "math", "conv"], ["unchecked"])
    d = os.path.join(core.WORK, "selftest")
    shutil.rmtree(d, ignore_errors=True)
    os.makedirs(d)
    fails = 0
    cases = []

    def case(name, bin_, args, dom, prop, pred, mut):
        nonlocal fails
        base = core.gen_trace("selftest", name, "unchecked", bin_, args)
        _, rej0 = _validate(base, dom, prop)
        bad0 = [r for r in rej0 if not r["dev"]]
        cor = os.path.join(d, name + "_corrupt.ndjson")
        line = _corrupt(base, cor, pred, mut)
        _, rej1 = _validate(cor, dom, prop)
        bad1 = [r for r in rej1 if not r["dev"]]
        # the first rejected event must be the corrupted one (in a Wrapping program a corrupted register value may make
        # later steps of the same program inconsistent as well)
        ok = (not bad0) and line is not None and len(bad1) >= 1 and min(r["line"] for r in bad1) == line \
            and (len(bad1) == 1 or bin_ == "wrap")
        cases.append(dict(case=name, accepted_clean=not bad0, corrupted_line=line,
                          rejected_lines=[r["line"] for r in bad1], ok=ok))
        log("selftest %-28s clean: %d unexplained rejects; corrupted line %s -> rejected lines %s  %s"
            % (name, len(bad0), line, [r["line"] for r in bad1], "OK" if ok else "FAILED"))
        if not ok:
            fails += 1

    def bump(o):        # change a logged value by one
        if isinstance(o[1], list):
            o[1] = [o[1][0]] + ([o[1][1] ^ 1] + o[1][2:] if len(o[1]) > 1 else [1])
        else:
            o[1] = o[1] + 1

    # 1. int domain, arithmetic: flip the overflow flag of one overflowing_mul
    case("arith_flag", "arith", ["--topic", "mul", "--widths", "8", "--seed", str(seed)], "int", "C02",
         lambda e: e["op"] == "mul" and e["a"] not in (0,) and e["o"][4][0] == 0,
         lambda e: e["o"][4].__setitem__(2, 1 - e["o"][4][2]))
    # 2. int domain, Wrapping register machine: change one intermediate result
    case("wrap_result", "wrap", ["--n", "3", "--seed", str(seed)], "int", "C18",
         lambda e: e["k"] == "w" and e["op"] == "add" and e["r"][0] == 0,
         lambda e: bump(e["r"]))
    # 3. big domain, comparison: flip one '<'
    case("cmp_lt", "conv", ["--topic", "cmp", "--big", "--n", "2", "--seed", str(seed)], "big", "C03",
         lambda e: e["k"] == "cmp",
         lambda e: e["o"][2].__setitem__(1, 1 - e["o"][2][1]))
    # 4. big domain, math: move one log2 result by 16 ulp, one sqrt by 8 ulp
    def far(k):
        def m(e):
            limbs = e["r"][1]
            if len(limbs) == 1:
                limbs.append(k)
            else:
                limbs[1] = (limbs[1] + k) % 32768 if limbs[1] + k < 32768 else limbs[1] - k
        return m
    case("log2_16ulp", "math", ["--topic", "log2", "--seed", str(seed)], "big", "C14",
         lambda e: e["fn"] == "log2" and e["r"][0] == 0 and len(e["r"][1]) > 2, far(16))
    case("sqrt_8ulp", "math", ["--topic", "sqrt", "--seed", str(seed)], "big", "C13",
         lambda e: e["fn"] == "sqrt" and e["r"][0] == 0 and len(e["r"][1]) > 2, far(8))
    # 5. C17: remove the hook's count (as if the crate were built without the guard): not vacuously accepted
    case("iters_missing", "math", ["--topic", "exp", "--seed", str(seed)], "big", "C17",
         lambda e: e["fn"] == "exp" and e["r"][0] == 0,
         lambda e: e.__setitem__("it", 10 ** 6))
    # 6. slots added after the source-coverage diagnostic (DESIGN section 13): one by-reference spelling of `*`, one observer of the
    #    Wrapping machine, one constructor load, one using_encoded byte, the From<fixed> for f64 value
    case("spelling_ref", "arith", ["--topic", "mul", "--widths", "16", "--big", "--n", "3", "--seed", str(seed)], "big", "C01",
         lambda e: e["op"] == "mul" and e["a"] != [0] and e["alt"][3][0] == 0 and e["o"][0][0] == 0,
         lambda e: bump(e["alt"][3]))
    case("wrap_observer", "wrap", ["--n", "3", "--seed", str(seed)], "int", "C18",
         lambda e: e["k"] == "wobs" and e["op"] == "count_ones",
         lambda e: e["r"].__setitem__(1, e["r"][1] + 1))
    case("wrap_to_num", "wrap", ["--n", "3", "--seed", str(seed)], "int", "C18",
         lambda e: e["k"] == "wobs" and e["op"] == "to_num" and e["r"][0] == 0,
         lambda e: bump(e["r"]))
    case("wrap_display_flags", "wrap", ["--n", "3", "--seed", str(seed)], "int", "C18",
         lambda e: e["k"] == "wobs" and e["op"] == "display",
         lambda e: e["s"][4].__setitem__(0, 32))          # "{:08.2}" padded with a blank instead of a zero
    case("codec_using_encoded", "conv", ["--topic", "codec", "--big", "--n", "2", "--seed", str(seed)], "big", "C10",
         lambda e: e["k"] == "codec" and e["A"][1] >= 16 and e["used"][1] != e["used"][1][::-1],
         lambda e: e["used"].__setitem__(1, e["used"][1][::-1]))
    case("float_from", "conv", ["--topic", "x2f", "--big", "--n", "2", "--seed", str(seed)], "big", "C05",
         lambda e: e["k"] == "x2f" and "from" in e and e["a"] != [0],
         lambda e: bump(e["from"]))
    os.makedirs(core.EVID, exist_ok=True)
    with open(os.path.join(core.ROOT, "selftest_result.json"), "w") as f:
        json.dump(dict(cases=cases, failures=fails), f, indent=1)
    shutil.rmtree(d, ignore_errors=True)
    log("selftest: %d case(s) failed" % fails)
    return 0 if fails == 0 else 2
