#!/bin/sh
# Run once after a fresh restore, offline: builds the harness from files on disk and self-checks BigInt.tla.
set -e
cd "$(dirname "$0")"
export CARGO_NET_OFFLINE=true
mkdir -p work evidence replays
[ -f harness/Cargo.lock ] || cp ../repo/Cargo.lock harness/Cargo.lock
(cd harness && cargo build --offline --profile unchecked --bins 2>&1 | tail -3) &
(cd harness && cargo build --offline --profile checked --bins 2>&1 | tail -3) &
wait
cd tla/mc
timeout 600 ../../bin/tlcj "$(cd .. && pwd)" -workers 1 -metadir ../../work/meta_setup -cleanup -config MC_BigInt.cfg MC_BigInt.tla | tail -3
echo "setup done"
