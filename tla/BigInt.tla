------------------------------- MODULE BigInt -------------------------------
(***************************************************************************)
(* Arbitrary-precision integers for TLC (whose native integers are 32-bit). *)
(* A natural number is a little-endian sequence of limbs in 0..B-1 with no  *)
(* trailing zero limb (<<>> is 0).  An integer is [neg, mag] with neg=FALSE *)
(* for zero.  Every intermediate native value stays below 2^31.             *)
(***************************************************************************)
EXTENDS Integers, Sequences, SequencesExt

LB == 15
B  == 32768

RECURSIVE P2(_)
P2(k) == IF k = 0 THEN 1 ELSE 2 * P2(k - 1)          \* native; k <= 30

Limb(s, i) == IF i >= 1 /\ i <= Len(s) THEN s[i] ELSE 0
MaxI(a, b) == IF a > b THEN a ELSE b
MinI(a, b) == IF a < b THEN a ELSE b

RECURSIVE NNorm(_)
NNorm(t) == IF t = <<>> THEN t
            ELSE IF t[Len(t)] = 0 THEN NNorm(SubSeq(t, 1, Len(t) - 1)) ELSE t

NIsZero(a) == a = <<>>

RECURSIVE NFromInt(_)
NFromInt(n) == IF n = 0 THEN <<>> ELSE <<n % B>> \o NFromInt(n \div B)      \* n >= 0

\* value of a natural with at most two limbs (fits a native int)
NToInt(a) == Limb(a, 1) + B * Limb(a, 2)

NCmp(a, b) ==
  IF Len(a) # Len(b) THEN (IF Len(a) < Len(b) THEN -1 ELSE 1)
  ELSE LET RECURSIVE C(_)
           C(i) == IF i = 0 THEN 0
                   ELSE IF a[i] < b[i] THEN -1 ELSE IF a[i] > b[i] THEN 1 ELSE C(i - 1)
       IN C(Len(a))

\* carry-propagating fold: st = [c |-> carry, o |-> output limbs]
NAdd(a, b) ==
  LET n  == MaxI(Len(a), Len(b))
      st == FoldLeft(LAMBDA s, i : LET t == Limb(a, i) + Limb(b, i) + s.c
                                   IN [c |-> t \div B, o |-> Append(s.o, t % B)],
                     [c |-> 0, o |-> <<>>], [i \in 1..n |-> i])
  IN IF st.c = 0 THEN st.o ELSE Append(st.o, st.c)

\* a - b for a >= b
NSub(a, b) ==
  LET st == FoldLeft(LAMBDA s, i : LET t == a[i] - Limb(b, i) - s.c
                                   IN IF t < 0 THEN [c |-> 1, o |-> Append(s.o, t + B)]
                                               ELSE [c |-> 0, o |-> Append(s.o, t)],
                     [c |-> 0, o |-> <<>>], [i \in 1..Len(a) |-> i])
  IN NNorm(st.o)

\* a * d for one limb d
NMulLimb(a, d) ==
  IF d = 0 \/ a = <<>> THEN <<>> ELSE
  LET st == FoldLeft(LAMBDA s, x : LET t == x * d + s.c
                                   IN [c |-> t \div B, o |-> Append(s.o, t % B)],
                     [c |-> 0, o |-> <<>>], a)
  IN IF st.c = 0 THEN st.o ELSE Append(st.o, st.c)

NShiftLimbs(a, k) == IF a = <<>> \/ k = 0 THEN a ELSE [i \in 1..k |-> 0] \o a

NMul(a, b) ==
  IF a = <<>> \/ b = <<>> THEN <<>> ELSE
  LET short == IF Len(a) <= Len(b) THEN a ELSE b
      long  == IF Len(a) <= Len(b) THEN b ELSE a
  IN FoldLeft(LAMBDA acc, j : NAdd(acc, NShiftLimbs(NMulLimb(long, short[j]), j - 1)),
              <<>>, [j \in 1..Len(short) |-> j])

\* <<quotient, remainder>> of a by one non-zero limb d; remainder is a native int
NDivLimb(a, d) ==
  LET st == FoldLeft(LAMBDA s, i : LET t == s.r * B + a[Len(a) + 1 - i]
                                   IN [r |-> t % d, o |-> <<t \div d>> \o s.o],
                     [r |-> 0, o |-> <<>>], [i \in 1..Len(a) |-> i])
  IN <<NNorm(st.o), st.r>>

NShl(a, k) == NShiftLimbs(NMulLimb(a, P2(k % LB)), k \div LB)                 \* a * 2^k

NShr(a, k) ==                                                                \* floor(a / 2^k)
  LET d == k \div LB IN
  IF d >= Len(a) THEN <<>>
  ELSE NDivLimb(SubSeq(a, d + 1, Len(a)), P2(k % LB))[1]

RECURSIVE BitLenI(_)
BitLenI(v) == IF v = 0 THEN 0 ELSE 1 + BitLenI(v \div 2)
NBitLen(a) == IF a = <<>> THEN 0 ELSE LB * (Len(a) - 1) + BitLenI(a[Len(a)])

NLowBits(a, k) ==                                                            \* a mod 2^k
  LET d == k \div LB   r == k % LB IN
  IF d >= Len(a) THEN a
  ELSE NNorm(SubSeq(a, 1, d) \o (IF r = 0 THEN <<>> ELSE <<a[d + 1] % P2(r)>>))

NBit(a, i) == (Limb(a, (i \div LB) + 1) \div P2(i % LB)) % 2                  \* bit i (0 = lsb)

NPow2(k) == NShl(<<1>>, k)

\* Division with quotient-digit estimation (Knuth D) for divisors of >= 2 limbs.
NDivMod(a, b) ==
  IF NCmp(a, b) < 0 THEN << <<>>, a >>
  ELSE IF Len(b) = 1 THEN LET qr == NDivLimb(a, b[1]) IN <<qr[1], NFromInt(qr[2])>>
  ELSE
  LET s  == LB - BitLenI(b[Len(b)])
      A  == NShl(a, s)
      V  == NShl(b, s)
      n  == Len(V)
      vt == V[n]
      Step(st, i) ==
        LET R   == NNorm(<<A[Len(A) + 1 - i]>> \o st.r)
            num == Limb(R, n + 1) * B + Limb(R, n)
            q0  == MinI(B - 1, num \div vt)
            RECURSIVE Fix(_)
            Fix(q) == IF q > 0 /\ NCmp(NMulLimb(V, q), R) > 0 THEN Fix(q - 1) ELSE q
            q   == IF NCmp(R, V) < 0 THEN 0 ELSE Fix(q0)
        IN [r |-> NSub(R, NMulLimb(V, q)), o |-> <<q>> \o st.o]
      fin == FoldLeft(Step, [r |-> <<>>, o |-> <<>>], [i \in 1..Len(A) |-> i])
  IN <<NNorm(fin.o), NShr(fin.r, s)>>

RECURSIVE NPow(_, _)
NPow(a, e) == IF e = 0 THEN <<1>>
              ELSE LET h == NPow(a, e \div 2) hh == NMul(h, h)
                   IN IF e % 2 = 1 THEN NMul(hh, a) ELSE hh

(******************************* integers **********************************)
Z(neg, mag)  == [neg |-> neg /\ mag # <<>>, mag |-> mag]
Z0           == Z(FALSE, <<>>)
ZNat(mag)    == Z(FALSE, mag)
ZFromInt(n)  == IF n < 0 THEN Z(TRUE, NFromInt(-n)) ELSE Z(FALSE, NFromInt(n))
ZIsZero(a)   == a.mag = <<>>
ZSign(a)     == IF a.mag = <<>> THEN 0 ELSE IF a.neg THEN -1 ELSE 1
ZNeg(a)      == Z(~a.neg, a.mag)
ZAbs(a)      == Z(FALSE, a.mag)
ZAdd(a, b)   == IF a.neg = b.neg THEN Z(a.neg, NAdd(a.mag, b.mag))
                ELSE IF NCmp(a.mag, b.mag) >= 0 THEN Z(a.neg, NSub(a.mag, b.mag))
                ELSE Z(b.neg, NSub(b.mag, a.mag))
ZSub(a, b)   == ZAdd(a, ZNeg(b))
ZMul(a, b)   == Z(a.neg # b.neg, NMul(a.mag, b.mag))
ZCmp(a, b)   == IF a.neg # b.neg THEN (IF a.neg THEN -1 ELSE 1)
                ELSE IF a.neg THEN NCmp(b.mag, a.mag) ELSE NCmp(a.mag, b.mag)
ZLt(a, b)    == ZCmp(a, b) < 0
ZLe(a, b)    == ZCmp(a, b) <= 0
ZEq(a, b)    == ZCmp(a, b) = 0
ZShl(a, k)   == Z(a.neg, NShl(a.mag, k))
\* floor(a / 2^k)
ZFloorShr(a, k) ==
  IF ~a.neg THEN Z(FALSE, NShr(a.mag, k))
  ELSE LET q == NShr(a.mag, k)
       IN IF NLowBits(a.mag, k) = <<>> THEN Z(TRUE, q) ELSE Z(TRUE, NAdd(q, <<1>>))
\* division truncated toward zero, and its remainder (sign of the dividend); b # 0
ZTruncDiv(a, b) == Z(a.neg # b.neg, NDivMod(a.mag, b.mag)[1])
ZTruncRem(a, b) == Z(a.neg, NDivMod(a.mag, b.mag)[2])
\* floor division and non-negative modulus for b > 0
ZFloorDiv(a, b) ==
  LET qr == NDivMod(a.mag, b.mag)
  IN IF ~a.neg THEN Z(FALSE, qr[1])
     ELSE IF qr[2] = <<>> THEN Z(TRUE, qr[1]) ELSE Z(TRUE, NAdd(qr[1], <<1>>))
ZMod(a, b) == ZSub(a, ZMul(b, ZFloorDiv(a, b)))
\* a mod 2^w as a natural (two's complement bit pattern of width w)
ZModPow2(a, w) ==
  LET m == NLowBits(a.mag, w)
  IN IF ~a.neg \/ m = <<>> THEN m ELSE NSub(NPow2(w), m)
\* signed value of a w-bit two's complement pattern
ZOfBits(bits, signed, w) ==
  IF signed /\ NBit(bits, w - 1) = 1 THEN Z(TRUE, NSub(NPow2(w), bits)) ELSE Z(FALSE, bits)
ZPow2(k) == Z(FALSE, NPow2(k))
=============================================================================
