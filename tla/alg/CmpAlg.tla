-------------------------------- MODULE CmpAlg -----------------------------
(***************************************************************************)
(* Layer A: mixed-type comparison as coded in src/cmp.rs (fixed_cmp_fixed)  *)
(* on top of src/int_helper.rs (to_fixed_helper): the right operand is      *)
(* converted to the left operand's layout (shift, lost-bits direction,      *)
(* overflow), cast to the left type's word, and compared.  The parameter    *)
(* signCheck selects the design as repaired by /repo commit ad4eb53 (a      *)
(* sign change in the cast counts as overflow) or as originally coded.      *)
(* Native integers: used by the small-width design model tla/mc/MC_Cmp.     *)
(***************************************************************************)
EXTENDS Sem, SemConv

P2n(k) == ZToInt(ZPow2(k))
BitLenN(n) == ZBitLen(ZI(n))
LeadingZeros(v, w) == w - BitLenN(v)                                   \* v >= 0
\* leading_zeros() of a non-negative value, (!self).leading_zeros() - 1 of a negative one
Leading(v, w, signed) == IF ~signed \/ v >= 0 THEN LeadingZeros(v, w) ELSE LeadingZeros(-v - 1, w) - 1
FloorShrN(v, k) == IF k >= 0 THEN v \div P2n(k) ELSE v * P2n(-k)

\* int_helper::to_fixed_helper(src bits v of layout S, dst_frac, dst_int)
ToFixedHelper(S, v, dstF, dstI) ==
  IF v = 0 THEN [bits |-> 0, neg |-> FALSE, dir |-> 0, overflow |-> FALSE]
  ELSE LET srcBits == LW(S)
           need    == LF(S) - dstF
           lead    == Leading(v, srcBits, LS(S))
           shifted == FloorShrN(v, need)
           lost    == need > 0 /\ shifted * P2n(need) # v
       IN [bits |-> shifted, neg |-> v < 0, dir |-> IF lost THEN -1 ELSE 0,
           overflow |-> srcBits - (dstF + dstI) > need + lead]

\* `bits as Bits`: keep the low w bits, read in the left type's signedness
CastTo(L, x) == Wrap(x, L)

\* partial_cmp(a : A, b : B) as -1 / 0 / 1
ACmp(A, a, B, b, signCheck) ==
  IF a >= 0 /\ b < 0 THEN 1
  ELSE IF a < 0 /\ b >= 0 THEN -1
  ELSE LET conv == ToFixedHelper(B, b, LF(A), LI(A))
           rb   == CastTo(A, conv.bits)
       IN IF conv.overflow \/ (signCheck /\ ((rb < 0) # conv.neg))
          THEN (IF b < 0 THEN 1 ELSE -1)
          ELSE IF a < rb THEN -1 ELSE IF a > rb THEN 1 ELSE conv.dir
\* eq(a, b)
AEq(A, a, B, b, signCheck) ==
  LET conv == ToFixedHelper(B, b, LF(A), LI(A))
      rb   == CastTo(A, conv.bits)
  IN conv.dir = 0 /\ ~(conv.overflow \/ (signCheck /\ ((rb < 0) # conv.neg))) /\ rb = a
=============================================================================
