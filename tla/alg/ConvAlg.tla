-------------------------------- MODULE ConvAlg ----------------------------
(***************************************************************************)
(* Layer A: fixed -> fixed conversion as coded in src/int_helper.rs         *)
(* (to_fixed_helper, signed and unsigned arm, with its match on the shift   *)
(* amount relative to the widest word) and src/traits.rs (FromFixed for the *)
(* fixed types: overflowing_from_fixed, saturating_from_fixed; checked_ and *)
(* wrapping_ are projections of overflowing_).                              *)
(* WW is the widest word: 128 in the code, small in the design model        *)
(* tla/mc/MC_Conv, which keeps the shape "every width up to WW occurs".     *)
(* The parameter variant selects the design as coded ("coded") or a design  *)
(* without the sign test on the cast ("nosign"), which MC_Conv refutes.     *)
(* Native integers.                                                         *)
(***************************************************************************)
EXTENDS CmpAlg
CONSTANT WW

\* the value of a WW-bit word after an operation on it: u128 / i128 arithmetic wraps silently in shifts
WordU(x) == x % P2n(WW)
WordS(x) == ((x + P2n(WW - 1)) % P2n(WW)) - P2n(WW - 1)

\* to_fixed_helper(self : word of layout S, src_frac = LF(S), dst_frac, dst_int)
HelperW(S, v, dstF, dstI) ==
  IF v = 0 THEN [bits |-> 0, neg |-> FALSE, dir |-> 0, overflow |-> FALSE]
  ELSE LET need  == LF(S) - dstF
           lead  == Leading(v, LW(S), LS(S))
           word(x) == IF LS(S) THEN WordS(x) ELSE WordU(x)       \* bits_128 is i128 in the signed arm, u128 in the other
           res   == IF need <= -WW THEN <<0, FALSE>>                                        \* ..=-128 => (0, false)
                    ELSE IF need < 0 THEN <<word(v * P2n(-need)), FALSE>>                   \* bits_128 << -need_to_shr
                    ELSE IF need = 0 THEN <<v, FALSE>>
                    ELSE IF need < WW THEN LET sh == v \div P2n(need)                        \* arithmetic shift = floor
                                           IN <<sh, word(sh * P2n(need)) # v>>
                    ELSE <<IF v < 0 THEN -1 ELSE 0, TRUE>>                                  \* 128.. => (sign fill, true)
       IN [bits |-> res[1], neg |-> v < 0, dir |-> IF res[2] THEN -1 ELSE 0,
           overflow |-> LW(S) - (dstF + dstI) > need + lead]

\* `bits as $Bits` into the destination word
Cast(D, x) == Wrap(x, D)

\* overflowing_from_fixed(src) for destination layout D
AOverflowing(S, v, D, variant) ==
  LET c    == HelperW(S, v, LF(D), LI(D))
      cast == Cast(D, c.bits)
      sgn  == IF LS(D) THEN ~c.neg /\ cast < 0         \* Widest::Unsigned(bits) with (bits as $Bits) < 0
              ELSE c.neg                               \* Widest::Negative into an unsigned type
  IN <<cast, c.overflow \/ (variant = "coded" /\ sgn)>>

\* saturating_from_fixed(src)
ASaturating(S, v, D, variant) ==
  LET c    == HelperW(S, v, LF(D), LI(D))
      cast == Cast(D, c.bits)
  IN IF c.overflow THEN (IF v < 0 THEN ZToInt(MinV(D)) ELSE ZToInt(MaxV(D)))
     ELSE IF LS(D) THEN (IF variant = "coded" /\ ~c.neg /\ cast < 0 THEN ZToInt(MaxV(D)) ELSE cast)
     ELSE (IF variant = "coded" /\ c.neg THEN ZToInt(MinV(D)) ELSE cast)
=============================================================================
