----------------------------- MODULE EuclidAlg -----------------------------
(***************************************************************************)
(* Layer A: the div_euclid family AS CODED in src/macros_frac.rs.           *)
(*   q = (self / rhs).round_to_zero(); if (self % rhs) < 0 { q -+ 1 }       *)
(* built on the truncated fixed-point quotient Q = trunc(a * 2^f / b),      *)
(* which can overflow (or wrap) although the Euclidean quotient is          *)
(* representable, and whose wrapped image is then rounded toward zero.      *)
(* Used (i) by the design model MC_Euclid to show where the design departs  *)
(* from layer M and (ii) as the named deviation "div_euclid_as_coded" of    *)
(* property C07: an event that M rejects is a KNOWN finding only if this    *)
(* transcription reproduces every logged form bit for bit.                  *)
(***************************************************************************)
EXTENDS Sem

Rtz(a, L)    == ZShl(TruncK(a, LF(L)), LF(L))               \* round_to_zero: always representable
OneU(L)      == ZShl(ZI(1), LF(L))                           \* the value 1 in ulps
\* truncated quotient the family starts from, fixed or integer divisor
TQuot(kind, a, b, L) == IF kind = "bin" THEN ZTruncDiv(ZShl(a, LF(L)), b) ELSE ZTruncDiv(a, b)
\* is (self % rhs) negative?   (% is exact for both divisor kinds)
RemNeg(kind, a, b, L) ==
  ZSign(IF kind = "bin" THEN ZTruncRem(a, b) ELSE ZTruncRem(a, ZShl(b, LF(L)))) < 0
\* the adjustment: -1 for a positive divisor, +1 for a negative one
Adj(b, L) == IF ZSign(b) > 0 THEN ZNeg(OneU(L)) ELSE OneU(L)

\* overflowing_div_euclid[_int] as coded: <<value, flag>>
CodedOvf(kind, a, b, L) ==
  LET Q  == TQuot(kind, a, b, L)
      o  == ~Fits(Q, L)
      q  == Rtz(Wrap(Q, L), L)
  IN IF ~LS(L) \/ ~RemNeg(kind, a, b, L) THEN <<q, o>>
     ELSE IF ~Fits(Adj(b, L), L) THEN <<q, TRUE>>             \* checked_from_num(-+1) is None: early return
     ELSE <<Wrap(ZAdd(q, Adj(b, L)), L), o \/ ~Fits(ZAdd(q, Adj(b, L)), L)>>

\* checked_div_euclid[_int] as coded: <<isSome, value>>
CodedChecked(kind, a, b, L) ==
  LET Q == TQuot(kind, a, b, L) IN
  IF ~Fits(Q, L) THEN <<FALSE, Z0>>
  ELSE LET q == Rtz(Q, L) IN
       IF ~LS(L) \/ ~RemNeg(kind, a, b, L) THEN <<TRUE, q>>
       ELSE IF ~Fits(Adj(b, L), L) \/ ~Fits(ZAdd(q, Adj(b, L)), L) THEN <<FALSE, Z0>>
       ELSE <<TRUE, ZAdd(q, Adj(b, L))>>

\* saturating_div_euclid as coded (fixed divisor only)
CodedSat(kind, a, b, L) ==
  LET c == CodedChecked(kind, a, b, L) IN
  IF c[1] THEN c[2] ELSE IF (ZSign(a) > 0) = (ZSign(b) > 0) THEN MaxV(L) ELSE MinV(L)

\* plain div_euclid[_int] as coded, in a build without overflow checks (everything wraps)
CodedPlainUnchecked(kind, a, b, L) ==
  LET q == Rtz(Wrap(TQuot(kind, a, b, L), L), L) IN
  IF ~LS(L) \/ ~RemNeg(kind, a, b, L) THEN q
  ELSE Wrap(ZAdd(q, Wrap(Adj(b, L), L)), L)

\* plain div_euclid[_int] as coded, in a build WITH overflow checks / debug assertions: where it panics
\*   (self / rhs) overflows, from_num(1) does not fit, or q -+ 1 overflows
CodedPlainPanics(kind, a, b, L) ==
  LET Q == TQuot(kind, a, b, L) IN
  \/ ~Fits(Q, L)
  \/ /\ LS(L) /\ RemNeg(kind, a, b, L)
     /\ (~Fits(OneU(L), L) \/ ~Fits(ZAdd(Rtz(Q, L), Adj(b, L)), L))

\* does the logged quintuple of forms equal the as-coded design?   (b # 0)
\* The plain form is compared only for the unchecked profile; with overflow checks it may panic.
CodedFormsMatch(kind, o, a, b, L, pr) ==
  LET ov == CodedOvf(kind, a, b, L)
      ck == CodedChecked(kind, a, b, L)
  IN /\ (IF ck[1] THEN ValIs(o[2], ck[2]) ELSE IsNone(o[2]))
     /\ (Absent(o[3]) \/ ValIs(o[3], CodedSat(kind, a, b, L)))
     /\ ValIs(o[4], ov[1])
     /\ ValIs(o[5], ov[1]) /\ o[5][3] = (IF ov[2] THEN 1 ELSE 0)
     /\ (IF pr = 0 THEN ValIs(o[1], CodedPlainUnchecked(kind, a, b, L))
         ELSE IsPanic(o[1]) \/ ValIs(o[1], CodedPlainUnchecked(kind, a, b, L)))
=============================================================================
