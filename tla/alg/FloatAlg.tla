------------------------------- MODULE FloatAlg ----------------------------
(***************************************************************************)
(* Layer A: float -> fixed as coded in src/float_helper.rs (to_float_kind), *)
(* src/int_helper.rs (to_fixed_helper, through CmpAlg) and src/helpers.rs   *)
(* (private_overflowing_from_float_helper), and the fixed/float comparison  *)
(* of src/cmp.rs, parametric in the float format so that TLC can run it on  *)
(* miniature formats.  Three switches select the design as repaired or as   *)
(* originally coded:                                                        *)
(*   fixMax  (/repo b06ca58)  non-finite iff exp > EXP_MAX   (was: ==)      *)
(*   fixZero (/repo 26606b9)  zero is reported non-negative                 *)
(*   fixSub  (/repo 72023d7)  subnormals use the exponent EXP_MIN           *)
(* Native integers (small-width design model tla/mc/MC_Float).              *)
(***************************************************************************)
EXTENDS CmpAlg

ToFloatKind(bits, ft, dstF, dstI, fixMax, fixZero, fixSub) ==
  LET p      == FPrec(ft)
      bias   == FBias(ft)
      expMax == bias
      expMin == 1 - bias
      neg    == bits \div P2n(ft - 1) = 1
      biased == (bits \div P2n(p - 1)) % P2n(FEBits(ft))
      exp0   == biased - bias
      mant0  == bits % P2n(p - 1)
  IN IF (IF fixMax THEN exp0 > expMax ELSE exp0 = expMax)
     THEN [cls |-> IF mant0 = 0 THEN "inf" ELSE "nan", neg |-> neg]
     ELSE LET normal == exp0 >= expMin
              mant1  == IF normal THEN mant0 + P2n(p - 1) ELSE mant0
              exp    == IF normal \/ ~fixSub THEN exp0 ELSE expMin
          IN IF mant1 = 0
             THEN [cls |-> "fin", neg |-> IF fixZero THEN FALSE ELSE neg,
                   conv |-> [bits |-> 0, neg |-> FALSE, dir |-> 0, overflow |-> FALSE]]
             ELSE LET srcF == p - 1 - exp
                      need == srcF - dstF
                  IN IF need > p
                     THEN [cls |-> "fin", neg |-> neg,
                           conv |-> [bits |-> 0, neg |-> FALSE, dir |-> IF neg THEN 1 ELSE -1, overflow |-> FALSE]]
                     ELSE LET lsb     == IF need > 0 THEN P2n(need) ELSE 1
                              removed == IF need > 0 THEN mant1 % lsb ELSE 0
                              tie     == lsb \div 2
                              up      == need > 0 /\ removed # 0 /\ removed >= tie
                                         /\ (removed > tie \/ (mant1 \div lsb) % 2 = 1)
                              dir1    == IF need <= 0 \/ removed = 0 THEN 0 ELSE IF up THEN 1 ELSE -1
                              mant2   == IF need > 0 THEN (mant1 + (IF up THEN lsb ELSE 0)) \div lsb ELSE mant1
                              srcF2   == IF need > 0 THEN srcF - need ELSE srcF
                              mantS   == IF neg THEN -mant2 ELSE mant2
                              conv0   == ToFixedHelper(<<1, ft, srcF2>>, mantS, dstF, dstI)
                          IN [cls |-> "fin", neg |-> neg,
                              conv |-> [conv0 EXCEPT !.dir = IF neg THEN -dir1 ELSE dir1]]

\* overflowing_from_num(float): <<panics?, wrapped value, overflow>>  (a non-finite float panics)
AFromFloat(bits, ft, L, fixMax, fixZero, fixSub) ==
  LET k == ToFloatKind(bits, ft, LF(L), LI(L), fixMax, fixZero, fixSub) IN
  IF k.cls # "fin" THEN <<TRUE, 0, FALSE>>
  ELSE LET rb == CastTo(L, k.conv.bits)
           newOvf == IF LS(L) THEN (~k.conv.neg /\ rb < 0) ELSE k.conv.neg
       IN <<FALSE, rb, k.conv.overflow \/ newOvf>>

\* partial_cmp(fixed a of layout L, float): -1 / 0 / 1, 2 = None
ACmpFloat(a, L, bits, ft, fixMax, fixZero, fixSub) ==
  LET k == ToFloatKind(bits, ft, LF(L), LI(L), fixMax, fixZero, fixSub) IN
  IF k.cls = "nan" THEN 2
  ELSE IF k.cls = "inf" THEN (IF k.neg THEN 1 ELSE -1)
  ELSE IF a >= 0 /\ k.neg THEN 1
  ELSE IF a < 0 /\ ~k.neg THEN -1
  ELSE LET rb == CastTo(L, k.conv.bits) IN
       IF k.conv.overflow \/ ((rb < 0) # k.conv.neg) THEN (IF k.neg THEN 1 ELSE -1)
       ELSE IF a < rb THEN -1 ELSE IF a > rb THEN 1 ELSE k.conv.dir
=============================================================================
