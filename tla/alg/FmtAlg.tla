------------------------------- MODULE FmtAlg ------------------------------
(***************************************************************************)
(* Layer A: decimal digit generation AS CODED in src/display.rs             *)
(* (fmt_dec / write_frac_dec / round_and_trim).  The fraction is scaled to  *)
(* a machine word of WB bits; after every generated digit the loop stops    *)
(* early when the scaled remainder is "very close to zero" (< 10 or         *)
(* > 2^WB - 10 in word units) -- also when a precision was requested --     *)
(* and, without a precision, when the remainder is below the scaled         *)
(* half-ulp.  For small words (8 or 16 bits) the first test is far coarser  *)
(* than half an ulp, which is the recorded finding of property C09.         *)
(* The transcription takes the early-stop rule as a parameter: near = TRUE  *)
(* is the rule as originally coded (the defect recorded and then repaired   *)
(* by /repo commit aa2d8c5), near = FALSE the repaired rule (stop only on   *)
(* an exactly zero remainder).  tla/mc/MC_Fmt checks both against layer M   *)
(* for every value of every layout of width <= 8: the repaired design       *)
(* conforms, the original one is refuted (e.g. U0F8 103/256).               *)
(***************************************************************************)
EXTENDS Sem, SemConv, SemText

\* word used for the fraction: u16 -> u8, u32 -> u16, u64 -> u32, u128 -> u64 while f < half
RECURSIVE WordBits(_, _)
WordBits(w, f) == IF w > 8 /\ f < w \div 2 THEN WordBits(w \div 2, f) ELSE w

\* ceil(n * log10(2)) as the code computes it
CeilLog10Pow2(n) ==
  ZToInt(ZFloorShr(ZAdd(ZMul(ZI(n), ZI(1292913987)), ZSub(ZPow2(32), ZI(1))), 32))

\* number of significant fractional bits
RECURSIVE TZ(_, _)
TZ(x, k) == IF ZBitAbs(x, k) = 1 THEN k ELSE TZ(x, k + 1)
FracUsed(fp, f) == IF ZIsZero(fp) THEN 0 ELSE f - TZ(fp, 0)

\* as-coded decimal rendering of |a| / 2^f: [nd |-> digits kept, D |-> integer of all shown digits]
CodedDec(a, L, p, near) ==
  LET f    == LF(L)
      mag  == ZAbs(a)
      ip   == ZFloorShr(mag, f)
      fp   == ZSub(mag, ZShl(ip, f))
      WB   == WordBits(LW(L), f)
      fw   == ZShl(fp, WB - f)                                   \* fraction scaled to the word
      auto == p < 0
      maxd == IF auto THEN CeilLog10Pow2(f) ELSE MinI(FracUsed(fp, f), p)
      Rem(i)  == ZUMod2(ZMul(fw, ZPow(ZI(10), i)), WB)           \* remainder after i digits
      Near(r, t) == ZLt(r, t) \/ ZLt(ZUMod2(ZNeg(r), WB), t)     \* self < t || self.wrapping_neg() < t
      Tie(i)  == IF f = WB THEN ZUMod2(ZMul(ZI(5), ZPow(ZI(10), i - 1)), WB)
                 ELSE ZUMod2(ZMul(ZPow2(WB - 1 - f), ZPow(ZI(10), i)), WB)
      RECURSIVE Stop(_)
      Stop(i) == IF i > maxd THEN maxd
                 ELSE IF (IF near THEN Near(Rem(i), ZI(10)) ELSE ZIsZero(Rem(i))) THEN i
                 ELSE IF auto /\ Near(Rem(i), Tie(i)) THEN i
                 ELSE Stop(i + 1)
      nd   == Stop(1)
      Dfl  == ZAdd(ZMul(ip, ZPow(ZI(10), nd)), ZFloorShr(ZMul(fw, ZPow(ZI(10), nd)), WB))
      c    == ZCmp(Rem(nd), ZPow2(WB - 1))
      up   == c > 0 \/ (c = 0 /\ ZBitAbs(Dfl, 0) = 1)
  IN [nd |-> nd, D |-> IF up THEN ZAdd(Dfl, ZI(1)) ELSE Dfl]

\* does the logged base body show exactly the as-coded value (with p digits, or trimmed when automatic)?
CodedBodyMatch(bi, a, L, p, near) ==
  LET cd == CodedDec(a, L, p, near)
      d  == Len(bi.t.frac)
      Db == DigitsToZ(bi.t.int \o bi.t.frac, 10)
  IN /\ bi.shape
     /\ (IF ZSign(a) >= 0 THEN ~bi.neg ELSE bi.neg)
     /\ ZEq(ZMul(Db, ZPow(ZI(10), cd.nd)), ZMul(cd.D, ZPow(ZI(10), d)))
     /\ (IF p >= 0 THEN d = p ELSE (d = 0 \/ bi.t.frac[d] # 0))
=============================================================================
