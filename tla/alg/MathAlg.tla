-------------------------------- MODULE MathAlg ----------------------------
(***************************************************************************)
(* Layer A: the algorithms of src/transcendental.rs transcribed step for    *)
(* step, for S = D = one signed or unsigned layout L = <<s, w, f>>, on raw   *)
(* bits read as integers (value = bits / 2^f):                              *)
(*   Sqrt   Newton iteration with reciprocal for operands below one         *)
(*   Log2   integer part by halving, fraction bit by bit by squaring         *)
(*   Ln     log2 / LOG2_E                                                    *)
(*   Exp    Maclaurin series until the term vanishes, reciprocal for x < 0   *)
(*   Pow    exp(y ln x)                                                      *)
(*   Powi   repeated checked multiplication, reciprocal for n < 0            *)
(*   Sin / Cos / Tan   reduction by %, mirroring, 24 CORDIC rotations         *)
(* Every operator returns [k, v, it]: k = "ok" / "err" as the function       *)
(* returns Ok / Err, or "undef" where a plain (unchecked) operator of the    *)
(* code would overflow -- the code's behaviour then depends on the build     *)
(* profile and the transcription makes no claim; v = result bits; it = the   *)
(* number of loop iterations (what the verif_tick hook counts).              *)
(* Used (i) by tla/vm/TraceA.tla: fidelity -- recorded calls of the real      *)
(* library must be reproduced bit for bit and tick for tick (reported as a   *)
(* fidelity figure, never as a violation: a change of algorithm that stays   *)
(* within the properties' tolerances is not a defect); (ii) by               *)
(* tla/mc/MC_MathAlg: the transcribed design meets the bounds of C13 / C14 / *)
(* C15 / C17 for EVERY operand of small layouts.                             *)
(* Written against the Num interface: runs in both number domains.          *)
(***************************************************************************)
EXTENDS Sem, TrigTables

MAOk(v, it)  == [k |-> "ok", v |-> v, it |-> it]
MAErr(it)    == [k |-> "err", v |-> Z0, it |-> it]
MAUndef(it)  == [k |-> "undef", v |-> Z0, it |-> it]

MAOne(L)      == ZPow2(LF(L))
MAFromInt(n, L) == ZShl(ZI(n), LF(L))                  \* from_num(n) for a small integer n (must fit: see callers)
\* checked operators: <<fits, value>>
MACMul(a, b, L) == LET r == ZFloorShr(ZMul(a, b), LF(L)) IN <<Fits(r, L), r>>
MACDiv(a, b, L) == IF ZIsZero(b) THEN <<FALSE, Z0>> ELSE LET r == ZTruncDiv(ZShl(a, LF(L)), b) IN <<Fits(r, L), r>>
MACAdd(a, b, L) == LET r == ZAdd(a, b) IN <<Fits(r, L), r>>
\* constants of the module are I9F23; D::from(c) shifts them to f fractional bits (a floor shift for f < 23, which only
\* the small-width design model uses)
MAConstIn(c23, L) == IF LF(L) >= 23 THEN ZShl(ZI(c23), LF(L) - 23) ELSE ZFloorShr(ZI(c23), 23 - LF(L))
E23      == 22802600          \* transcendental::E      = consts::E.to_bits() >> 103
LOG2E23  == 12102203          \* transcendental::LOG2_E = consts::LOG2_E.to_bits() >> 104

(* ------------------------------ sqrt ------------------------------------ *)
RECURSIVE NewtonLoop(_, _, _, _, _)
\* for _i in 0..w { tick; next = (l + op / l) / 2; if next >= l break; l = next }
NewtonLoop(i, l, op, L, it) ==
  IF i >= LW(L) THEN <<"done", l, it>>
  ELSE LET q    == ZTruncDiv(ZShl(op, LF(L)), l)               \* op / l   (l > 0)
           sum  == ZAdd(l, q)
           next == ZTruncDiv(ZShl(sum, LF(L)), MAFromInt(2, L))   \* (..) / from_num(2)
       IN IF ~Fits(q, L) \/ ~Fits(sum, L) THEN <<"undef", l, it + 1>>
          ELSE IF ZLe(l, next) THEN <<"done", l, it + 1>>
          ELSE NewtonLoop(i + 1, next, op, L, it + 1)
Sqrt(x, L) ==
  IF ZSign(x) < 0 THEN MAErr(0)
  ELSE IF ZIsZero(x) \/ ZEq(x, MAOne(L)) THEN MAOk(x, 0)
  ELSE IF ~Fits(MAFromInt(2, L), L) THEN MAUndef(0)
  ELSE LET invert == ZLt(x, MAOne(L))
           inv    == MACDiv(MAOne(L), x, L)
       IN IF invert /\ ~inv[1] THEN MAErr(0)
          ELSE LET op == IF invert THEN inv[2] ELSE x
                   l0 == ZAdd(ZTruncDiv(ZShl(op, LF(L)), MAFromInt(2, L)), MAOne(L))
               IN IF ~Fits(l0, L) THEN MAUndef(0)
                  ELSE LET r == NewtonLoop(0, l0, op, L, 0) IN
                       IF r[1] = "undef" THEN MAUndef(r[3])
                       ELSE IF ~invert THEN MAOk(r[2], r[3])
                       ELSE LET u == MACDiv(MAOne(L), r[2], L) IN IF u[1] THEN MAOk(u[2], r[3]) ELSE MAErr(r[3])

(* ------------------------------ log2 / ln ------------------------------- *)
\* rs(x) = (x >> 1) + (x & lsb), lsb = one unit in the last place
MARs(x) == ZAdd(ZFloorShr(x, 1), ZUMod2(x, 1))
RECURSIVE HalveLoop(_, _, _, _)
HalveLoop(x, n, L, it) == IF ZLe(MAFromInt(2, L), x) THEN HalveLoop(MARs(x), n + 1, L, it + 1) ELSE <<x, n, it>>
RECURSIVE FracLoop(_, _, _, _, _)
\* for _ in 0..f { tick; x *= x; result <<= 1; if x >= 2 { result |= 1; x = rs(x) } }
FracLoop(i, x, res, L, it) ==
  IF i >= LF(L) THEN <<"done", res, it>>
  ELSE LET sq == ZFloorShr(ZMul(x, x), LF(L)) IN
       IF ~Fits(sq, L) THEN <<"undef", res, it + 1>>
       ELSE LET big == ZLe(MAFromInt(2, L), sq)
            IN FracLoop(i + 1, IF big THEN MARs(sq) ELSE sq, ZAdd(ZShl(res, 1), IF big THEN ZI(1) ELSE Z0), L, it + 1)
Log2Inner(x, L) ==                     \* x >= 1
  LET h == HalveLoop(x, 0, L, 0) IN
  IF ZEq(h[1], MAOne(L)) THEN (IF Fits(MAFromInt(h[2], L), L) THEN MAOk(MAFromInt(h[2], L), h[3]) ELSE MAUndef(h[3]))
  ELSE LET fr == FracLoop(0, h[1], ZI(h[2]), L, h[3]) IN
       IF fr[1] = "undef" THEN MAUndef(fr[3])
       ELSE MAOk(ZWrap(fr[2], LS(L), LW(L)), fr[3])      \* from_bits(result): the shifts of the integer word wrap silently
Log2(x, L) ==
  IF ZSign(x) <= 0 THEN MAErr(0)
  ELSE IF ~Fits(MAOne(L), L) THEN MAUndef(0)
  ELSE IF ZLt(x, MAOne(L))
       THEN LET inv == MACDiv(MAOne(L), x, L) IN
            IF ~inv[1] THEN MAErr(0)
            ELSE LET r == Log2Inner(inv[2], L) IN
                 IF r.k # "ok" THEN r ELSE IF Fits(ZNeg(r.v), L) THEN MAOk(ZNeg(r.v), r.it) ELSE MAUndef(r.it)
       ELSE Log2Inner(x, L)
Ln(x, L) ==
  LET r == Log2(x, L) IN
  IF r.k # "ok" THEN r
  ELSE LET q == ZTruncDiv(ZShl(r.v, LF(L)), MAConstIn(LOG2E23, L)) IN      \* plain `/`
       IF Fits(q, L) THEN MAOk(q, r.it) ELSE MAUndef(r.it)

(* ------------------------------ exp ------------------------------------- *)
RECURSIVE ExpLoop(_, _, _, _, _, _, _)
\* while i + 1 < max_terms && term != 0 { i += 1; tick; term = term.checked_mul(x)?.checked_div(from_num(i))?; result = result.checked_add(term)? }
ExpLoop(i, term, result, x, maxTerms, L, it) ==
  IF ~(i + 1 < maxTerms) \/ ZIsZero(term) THEN <<"done", result, it>>
  ELSE LET j  == i + 1
           t1 == MACMul(term, x, L)
       IN IF ~t1[1] THEN <<"err", result, it + 1>>
          ELSE IF ~Fits(MAFromInt(j, L), L) THEN <<"undef", result, it + 1>>       \* from_num(i) would not fit
          ELSE LET t2 == MACDiv(t1[2], MAFromInt(j, L), L) IN
               IF ~t2[1] THEN <<"err", result, it + 1>>
               ELSE LET r == MACAdd(result, t2[2], L) IN
                    IF ~r[1] THEN <<"err", result, it + 1>>
                    ELSE ExpLoop(j, t2[2], r[2], x, maxTerms, L, it + 1)
ExpWith(x0, L, maxTerms) ==
  IF ZIsZero(x0) THEN (IF Fits(MAOne(L), L) THEN MAOk(MAOne(L), 0) ELSE MAUndef(0))
  ELSE IF ZEq(x0, MAOne(L)) THEN MAOk(MAConstIn(E23, L), 0)
  ELSE LET neg == ZSign(x0) < 0
           x   == ZAbs(x0)
       IN IF ~Fits(x, L) THEN MAErr(0)                                   \* checked_neg of the minimum
          ELSE IF ~Fits(MAOne(L), L) THEN MAUndef(0)
          ELSE LET r0 == MACAdd(x, MAOne(L), L) IN
               IF ~r0[1] THEN MAErr(0)
               ELSE LET lp == ExpLoop(1, x, r0[2], x, maxTerms, L, 0) IN
                    IF lp[1] = "err" THEN MAErr(lp[3])
                    ELSE IF lp[1] = "undef" THEN MAUndef(lp[3])
                    ELSE IF ~neg THEN MAOk(lp[2], lp[3])
                    ELSE LET u == MACDiv(MAOne(L), lp[2], L) IN IF u[1] THEN MAOk(u[2], lp[3]) ELSE MAErr(lp[3])

Exp(x0, L)     == ExpWith(x0, L, LF(L) + 4 * LI(L))       \* as repaired by /repo commit 4c76d47
ExpOrig(x0, L) == ExpWith(x0, L, LF(L))                   \* as originally coded: frac_nbits() terms (refuted by MC_MathAlg_refute)

(* ------------------------------ pow ------------------------------------- *)
\* pow(x, y) = exp(ln(x)?.checked_mul(y)?)?; the final overflowing_to_num::<D>() is the identity for S = D
Pow(x, y, L) ==
  IF ZIsZero(x) THEN MAOk(Z0, 0)
  ELSE IF ZIsZero(y) THEN (IF Fits(MAOne(L), L) THEN MAOk(MAOne(L), 0) ELSE MAUndef(0))
  ELSE IF ZEq(y, MAOne(L)) THEN MAOk(x, 0)
  ELSE LET l == Ln(x, L) IN
       IF l.k # "ok" THEN l
       ELSE LET m == MACMul(l.v, y, L) IN
            IF ~m[1] THEN MAErr(l.it)
            ELSE LET r == Exp(m[2], L) IN [k |-> r.k, v |-> r.v, it |-> l.it + r.it]

(* ------------------------------ powi ------------------------------------ *)
RECURSIVE PowiLoop(_, _, _, _, _, _)
PowiLoop(i, n, r, x, L, it) ==
  IF i >= n THEN <<TRUE, r, it>>
  ELSE LET m == MACMul(r, x, L) IN IF ~m[1] THEN <<FALSE, r, it + 1>> ELSE PowiLoop(i + 1, n, m[2], x, L, it + 1)
Powi(x, n, L) ==
  IF ZIsZero(x) THEN MAOk(Z0, 0)
  ELSE IF n = 0 THEN (IF Fits(MAOne(L), L) THEN MAOk(MAOne(L), 0) ELSE MAUndef(0))
  ELSE IF n = 1 THEN MAOk(x, 0)
  ELSE LET an == IF n < 0 THEN -n ELSE n
           lp == PowiLoop(1, an, x, x, L, 0)
       IN IF ~lp[1] THEN MAErr(lp[3])
          ELSE IF n > 0 THEN MAOk(lp[2], lp[3])
          ELSE IF ~Fits(MAOne(L), L) THEN MAUndef(lp[3])
          ELSE LET u == MACDiv(MAOne(L), lp[2], L) IN IF u[1] THEN MAOk(u[2], lp[3]) ELSE MAErr(lp[3])
(* ------------------------------ sin / cos / tan -------------------------- *)
\* the U0F128 constants are kept as the trace encoding <<neg, limbs base 2^15>> of their 128-bit patterns;
\* T::lossy_from truncates to f fractional bits.  Big number domain only.
ATAN128 == <<
   <<0, 0, 0, 0, 0, 0, 11544, 10376, 2029, 201>>,
   <<0, 0, 0, 0, 0, 16384, 23975, 1377, 22734, 118>>,
   <<0, 0, 0, 0, 0, 8192, 8247, 31894, 23413, 62>>,
   <<0, 0, 0, 0, 0, 24576, 1517, 9899, 27357, 31>>,
   <<0, 0, 0, 0, 0, 20480, 20446, 30437, 32086, 15>>,
   <<0, 0, 0, 0, 0, 5120, 19377, 23482, 32682, 7>>,
   <<0, 0, 0, 0, 0, 13824, 28106, 10973, 32757, 3>>,
   <<0, 0, 0, 0, 0, 5888, 30581, 21846, 32766, 1>>,
   <<0, 0, 0, 0, 0, 23424, 23483, 27306, 32767>>,
   <<0, 0, 0, 0, 0, 28416, 10973, 32085, 16383>>,
   <<0, 0, 0, 0, 0, 30592, 21846, 32682, 8191>>,
   <<0, 0, 0, 0, 0, 23488, 10922, 32757, 4095>>,
   <<0, 0, 0, 0, 0, 10976, 21845, 32766, 2047>>,
   <<0, 0, 0, 0, 0, 21848, 27306, 32767, 1023>>,
   <<0, 0, 0, 0, 0, 10922, 32085, 32767, 511>>,
   <<0, 0, 0, 0, 0, 21845, 32682, 32767, 255>>,
   <<0, 0, 0, 0, 16384, 10922, 32757, 32767, 127>>,
   <<0, 0, 0, 0, 8192, 21845, 32766, 32767, 63>>,
   <<0, 0, 0, 0, 20480, 27306, 32767, 32767, 31>>,
   <<0, 0, 0, 0, 10240, 32085, 32767, 32767, 15>>,
   <<0, 0, 0, 0, 21504, 32682, 32767, 32767, 7>>,
   <<0, 0, 0, 0, 10752, 32757, 32767, 32767, 3>>,
   <<0, 0, 0, 0, 21760, 32766, 32767, 32767, 1>>,
   <<0, 0, 0, 0, 27264, 32767, 32767, 32767>>,
   <<0, 0, 0, 0, 32064, 32767, 32767, 16383>> >>
K128 == <<0, 0, 0, 0, 0, 0, 964, 27176, 14966, 155>>     \* 1 / 1.6467602578923106
FromU128(j, L) == ZFloorShr(ZJ(j), 128 - LF(L))
\* TWOPI23, PI23, HPI23: I9F23 bits of TWO_PI, PI, FRAC_PI_2 (consts::PI.to_bits() >> 102, 103, 104) -- module TrigTables
\* value comparison of bits a (f fractional bits) with an I9F23 constant
GtC(a, L, c23) == IF LF(L) >= 23 THEN ZLt(ZShl(ZI(c23), LF(L) - 23), a) ELSE ZLt(ZI(c23), ZShl(a, 23 - LF(L)))
LtC(a, L, c23) == IF LF(L) >= 23 THEN ZLt(a, ZShl(ZI(c23), LF(L) - 23)) ELSE ZLt(ZShl(a, 23 - LF(L)), ZI(c23))
RECURSIVE Cordic(_, _, _, _, _)
\* for i in 0..: tick; if i >= 24 break; rotate by +-atan(2^-i)
Cordic(i, x, y, z, L) ==
  IF i >= 24 THEN <<x, y, i + 1>>
  ELSE LET ang == FromU128(ATAN128[i + 1], L)
           xs  == ZFloorShr(x, i)
           ys  == ZFloorShr(y, i)
       IN IF ZSign(z) < 0 THEN Cordic(i + 1, ZAdd(x, ys), ZSub(y, xs), ZAdd(z, ang), L)
          ELSE Cordic(i + 1, ZSub(x, ys), ZAdd(y, xs), ZSub(z, ang), L)
Sin(a0, L) ==
  LET twoPi == MAConstIn(TWOPI23, L)
      hp    == MAConstIn(HPI23, L)
      a1 == ZTruncRem(a0, twoPi)
      a2 == IF GtC(a1, L, PI23) THEN ZSub(a1, twoPi) ELSE a1
      a3 == IF LtC(a2, L, -PI23) THEN ZAdd(a2, twoPi) ELSE a2
      a4 == IF GtC(a3, L, HPI23) THEN ZSub(hp, ZSub(a3, hp)) ELSE a3
      a5 == IF LtC(a4, L, -HPI23) THEN ZSub(ZNeg(hp), ZAdd(a4, hp)) ELSE a4
      c  == Cordic(0, FromU128(K128, L), Z0, a5, L)
  IN IF ZIsZero(twoPi) THEN MAUndef(0) ELSE MAOk(c[2], c[3])
Cos(a0, L) ==
  LET a == ZAdd(a0, MAConstIn(HPI23, L)) IN IF Fits(a, L) THEN Sin(a, L) ELSE MAUndef(0)
Tan(a0, L) ==
  LET a == ZShl(a0, 1) IN
  IF ~Fits(a, L) \/ ~Fits(MAFromInt(2, L), L) THEN MAUndef(0)
  ELSE LET s == Sin(a, L)  c == Cos(a, L) IN
       IF s.k # "ok" \/ c.k # "ok" THEN MAUndef(0)
       ELSE LET den == ZAdd(MAOne(L), c.v) IN
            IF ZIsZero(den) \/ ~Fits(den, L) THEN MAUndef(s.it + c.it)
            ELSE LET q == ZTruncDiv(ZShl(s.v, LF(L)), den) IN
                 IF Fits(q, L) THEN MAOk(q, s.it + c.it) ELSE MAUndef(s.it + c.it)
=============================================================================
