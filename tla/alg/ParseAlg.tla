------------------------------- MODULE ParseAlg ----------------------------
(***************************************************************************)
(* Layer A: the tokeniser of src/from_str.rs (parse_bounds) as a            *)
(* character-consuming state machine: sign / point / digit bookkeeping with *)
(* the indices of the first non-zero integer digit and of the last          *)
(* non-zero fraction digit, exactly as coded.                               *)
(***************************************************************************)
EXTENDS Sem, SemConv, SemText

PBInit == [err |-> FALSE, sign |-> 0, tis |-> 0, pt |-> 0, tfe |-> 0, any |-> FALSE]

\* consume byte b at (1-based) index i
PBStep(st, b, i, rx) ==
  IF st.err THEN st
  ELSE IF b = 43 \/ b = 45 THEN
         (IF st.sign # 0 \/ st.pt # 0 \/ st.any THEN [st EXCEPT !.err = TRUE]
          ELSE [st EXCEPT !.sign = IF b = 43 THEN 1 ELSE 2])
  ELSE IF b = 46 THEN
         (IF st.pt # 0 THEN [st EXCEPT !.err = TRUE] ELSE [st EXCEPT !.pt = i, !.tfe = i + 1])
  ELSE IF DigitVal(b, rx) >= 0 THEN
         [st EXCEPT !.tis = IF st.tis = 0 /\ st.pt = 0 /\ b # 48 THEN i ELSE @,
                    !.tfe = IF st.tfe # 0 /\ b # 48 THEN i + 1 ELSE @,
                    !.any = TRUE]
  ELSE [st EXCEPT !.err = TRUE]

RECURSIVE PBRun(_, _, _, _)
PBRun(st, s, i, rx) == IF i > Len(s) THEN st ELSE PBRun(PBStep(st, s[i], i, rx), s, i + 1, rx)

\* result: [ok, neg, int, frac] with int / frac as digit-value sequences (zeros trimmed as the code does)
ParseBounds(s, rx) ==
  LET st == PBRun(PBInit, s, 1, rx)
      n  == Len(s)
      intEnd == IF st.pt # 0 THEN st.pt - 1 ELSE n
      int  == IF st.tis # 0 THEN [i \in 1..(intEnd - st.tis + 1) |-> DigitVal(s[st.tis + i - 1], rx)] ELSE <<>>
      frac == IF st.pt # 0 /\ st.tfe - 1 >= st.pt + 1
              THEN [i \in 1..(st.tfe - 1 - st.pt) |-> DigitVal(s[st.pt + i], rx)] ELSE <<>>
  IN [ok |-> ~st.err /\ st.any, neg |-> st.sign = 2, int |-> int, frac |-> frac]
=============================================================================
