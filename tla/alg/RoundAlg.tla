------------------------------- MODULE RoundAlg ----------------------------
(***************************************************************************)
(* Layer A: the rounding methods as coded in src/macros_round.rs and the    *)
(* masks of src/macros_frac.rs (INT_MASK, FRAC_MASK, INT_LSB, FRAC_MSB),    *)
(* with the special cases for 0 and 1 integer bits and for signedness.      *)
(* Each operator returns <<wrapped value, overflow flag>> like the          *)
(* overflowing_* method it transcribes.                                     *)
(***************************************************************************)
EXTENDS Sem, SemConv, SemWrap

IntMask(L)  == ZSub(ZPow2(LW(L)), ZPow2(LF(L)))                       \* pattern: !0 << f   (0 when f = w)
FracMask(L) == ZSub(ZPow2(LF(L)), ZI(1))
IntLsb(L)   == IF LF(L) < LW(L) THEN ZPow2(LF(L)) ELSE Z0             \* 0 when INT_NBITS = 0
FracMsb(L)  == IF LF(L) >= 1 THEN ZPow2(LF(L) - 1) ELSE Z0            \* 0 when FRAC_NBITS = 0

AInt(a, L)      == OfPat(ZBitAnd(Pat(a, L), IntMask(L)), L)           \* self.int()
AFracPat(a, L)  == ZBitAnd(Pat(a, L), FracMask(L))                    \* self.frac().to_bits(), as a pattern
Inc(L)          == OfPat(IntLsb(L), L)                                \* from_bits(INT_LSB): -1 for a signed type with one integer bit
OAdd(x, y, L)   == <<Wrap(ZAdd(x, y), L), ~Fits(ZAdd(x, y), L)>>
OSub(x, y, L)   == <<Wrap(ZSub(x, y), L), ~Fits(ZSub(x, y), L)>>
HasHalf(a, L)   == ~ZIsZero(ZBitAnd(Pat(a, L), FracMsb(L)))           \* (bits & FRAC_MSB) != 0

ACeil(a, L) ==
  LET int == AInt(a, L) IN
  IF ZIsZero(AFracPat(a, L)) THEN <<int, FALSE>>
  ELSE IF LI(L) = 0 THEN <<int, ZSign(a) > 0>>
  ELSE IF LS(L) /\ LI(L) = 1 THEN OSub(int, Inc(L), L)
  ELSE OAdd(int, Inc(L), L)

AFloor(a, L) ==
  IF LS(L) /\ LI(L) = 0 THEN <<AInt(a, L), ZSign(a) < 0>> ELSE <<AInt(a, L), FALSE>>

ARound(a, L) ==
  LET int == AInt(a, L)
      tie == ZEq(AFracPat(a, L), FracMsb(L)) IN
  IF ~HasHalf(a, L) THEN <<int, FALSE>>
  ELSE IF LS(L) THEN
         (IF LI(L) = 0 THEN <<int, tie>>
          ELSE IF tie /\ ZSign(a) < 0 THEN <<int, FALSE>>
          ELSE IF LI(L) = 1 THEN OSub(int, Inc(L), L)
          ELSE OAdd(int, Inc(L), L))
  ELSE (IF LI(L) = 0 THEN <<int, TRUE>> ELSE OAdd(int, Inc(L), L))

ARte(a, L) ==
  LET int == AInt(a, L) IN
  IF ~HasHalf(a, L) THEN <<int, FALSE>>
  ELSE IF ZEq(AFracPat(a, L), FracMsb(L)) /\ ZIsZero(ZBitAnd(Pat(int, L), IntLsb(L))) THEN <<int, FALSE>>
  ELSE IF LS(L) THEN (IF LI(L) = 1 THEN OSub(int, Inc(L), L) ELSE OAdd(int, Inc(L), L))
  ELSE (IF LI(L) = 0 THEN <<int, TRUE>> ELSE OAdd(int, Inc(L), L))

\* round_to_zero: int(), plus one unit for a negative value with a fraction
ARtz(a, L) ==
  IF LS(L) /\ ZSign(a) < 0 /\ ~ZIsZero(AFracPat(a, L))
  THEN (IF LI(L) = 1 THEN Wrap(ZSub(AInt(a, L), Inc(L)), L) ELSE Wrap(ZAdd(AInt(a, L), Inc(L)), L))
  ELSE AInt(a, L)
=============================================================================
