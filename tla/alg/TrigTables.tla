----------------------------- MODULE TrigTables -----------------------------
(* The 23-bit truncations of the constants of src/transcendental.rs, as integers (units of 2^-23): shared by the Apalache  *)
(* lemmas TrigReduce / CordicZ and by tla/mc/MC_TrigConst, which checks them (TLC, 200-bit arithmetic) against the U0F128   *)
(* table of tla/alg/MathAlg.tla and against pi.                                                                            *)
EXTENDS Integers
\* @type: Seq(Int);
T23 == <<6588397, 3889358, 2055029, 1043165, 523606, 262058, 131061, 65534, 32767, 16383, 8191, 4095, 2047, 1023, 511, 255,
         127, 63, 31, 15, 7, 3, 1, 0>>
TWOPI23 == 52707178
PI23    == 26353589
HPI23   == 13176794
ONE23   == 8388608
=============================================================================
