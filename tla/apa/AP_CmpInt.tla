------------------------------ MODULE AP_CmpInt -----------------------------
EXTENDS CmpInt
C_I0F128_i8 == SS = TRUE /\ SW2 = 2^128 /\ DS = TRUE /\ DW2 = 2^8 /\ Need = 128 /\ PN = 2^128 /\ K = 136 /\ PK = 2^136 /\ PK1 = 2^135
C_I0F128_u128 == SS = TRUE /\ SW2 = 2^128 /\ DS = FALSE /\ DW2 = 2^128 /\ Need = 128 /\ PN = 2^128 /\ K = 256 /\ PK = 2^256 /\ PK1 = 2^255
C_U0F128_I128F0 == SS = FALSE /\ SW2 = 2^128 /\ DS = TRUE /\ DW2 = 2^128 /\ Need = 128 /\ PN = 2^128 /\ K = 256 /\ PK = 2^256 /\ PK1 = 2^255
C_u8_U0F128 == SS = FALSE /\ SW2 = 2^8 /\ DS = FALSE /\ DW2 = 2^128 /\ Need = -128 /\ PN = 2^128 /\ K = 0 /\ PK = 2^0 /\ PK1 = 1
C_i8_I0F128 == SS = TRUE /\ SW2 = 2^8 /\ DS = TRUE /\ DW2 = 2^128 /\ Need = -128 /\ PN = 2^128 /\ K = 0 /\ PK = 2^0 /\ PK1 = 1
C_U128F0_U0F128 == SS = FALSE /\ SW2 = 2^128 /\ DS = FALSE /\ DW2 = 2^128 /\ Need = -128 /\ PN = 2^128 /\ K = 0 /\ PK = 2^0 /\ PK1 = 1
C_I128F0_I0F128 == SS = TRUE /\ SW2 = 2^128 /\ DS = TRUE /\ DW2 = 2^128 /\ Need = -128 /\ PN = 2^128 /\ K = 0 /\ PK = 2^0 /\ PK1 = 1
C_I64F64_I32F32 == SS = TRUE /\ SW2 = 2^128 /\ DS = TRUE /\ DW2 = 2^64 /\ Need = 32 /\ PN = 2^32 /\ K = 96 /\ PK = 2^96 /\ PK1 = 2^95
C_I32F32_I64F64 == SS = TRUE /\ SW2 = 2^64 /\ DS = TRUE /\ DW2 = 2^128 /\ Need = -32 /\ PN = 2^32 /\ K = 96 /\ PK = 2^96 /\ PK1 = 2^95
C_U64F64_I64F64 == SS = FALSE /\ SW2 = 2^128 /\ DS = TRUE /\ DW2 = 2^128 /\ Need = 0 /\ PN = 2^0 /\ K = 128 /\ PK = 2^128 /\ PK1 = 2^127
C_I64F64_U64F64 == SS = TRUE /\ SW2 = 2^128 /\ DS = FALSE /\ DW2 = 2^128 /\ Need = 0 /\ PN = 2^0 /\ K = 128 /\ PK = 2^128 /\ PK1 = 2^127
C_I1F127_I127F1 == SS = TRUE /\ SW2 = 2^128 /\ DS = TRUE /\ DW2 = 2^128 /\ Need = 126 /\ PN = 2^126 /\ K = 254 /\ PK = 2^254 /\ PK1 = 2^253
C_I127F1_I1F127 == SS = TRUE /\ SW2 = 2^128 /\ DS = TRUE /\ DW2 = 2^128 /\ Need = -126 /\ PN = 2^126 /\ K = 2 /\ PK = 2^2 /\ PK1 = 2^1
C_U1F127_U128F0 == SS = FALSE /\ SW2 = 2^128 /\ DS = FALSE /\ DW2 = 2^128 /\ Need = 127 /\ PN = 2^127 /\ K = 255 /\ PK = 2^255 /\ PK1 = 2^254
C_I1F127_I128F0 == SS = TRUE /\ SW2 = 2^128 /\ DS = TRUE /\ DW2 = 2^128 /\ Need = 127 /\ PN = 2^127 /\ K = 255 /\ PK = 2^255 /\ PK1 = 2^254
C_I16F16_U8F8 == SS = TRUE /\ SW2 = 2^32 /\ DS = FALSE /\ DW2 = 2^16 /\ Need = 8 /\ PN = 2^8 /\ K = 24 /\ PK = 2^24 /\ PK1 = 2^23
C_U8F8_I16F16 == SS = FALSE /\ SW2 = 2^16 /\ DS = TRUE /\ DW2 = 2^32 /\ Need = -8 /\ PN = 2^8 /\ K = 24 /\ PK = 2^24 /\ PK1 = 2^23
C_I8F8_I0F16 == SS = TRUE /\ SW2 = 2^16 /\ DS = TRUE /\ DW2 = 2^16 /\ Need = -8 /\ PN = 2^8 /\ K = 8 /\ PK = 2^8 /\ PK1 = 2^7
C_i64_I40F88 == SS = TRUE /\ SW2 = 2^64 /\ DS = TRUE /\ DW2 = 2^128 /\ Need = -88 /\ PN = 2^88 /\ K = 40 /\ PK = 2^40 /\ PK1 = 2^39
C_u128_I40F88 == SS = FALSE /\ SW2 = 2^128 /\ DS = TRUE /\ DW2 = 2^128 /\ Need = -88 /\ PN = 2^88 /\ K = 40 /\ PK = 2^40 /\ PK1 = 2^39
C_I40F88_i64 == SS = TRUE /\ SW2 = 2^128 /\ DS = TRUE /\ DW2 = 2^64 /\ Need = 88 /\ PN = 2^88 /\ K = 152 /\ PK = 2^152 /\ PK1 = 2^151
C_I40F88_u128 == SS = TRUE /\ SW2 = 2^128 /\ DS = FALSE /\ DW2 = 2^128 /\ Need = 88 /\ PN = 2^88 /\ K = 216 /\ PK = 2^216 /\ PK1 = 2^215
C_I4F4_I0F128 == SS = TRUE /\ SW2 = 2^8 /\ DS = TRUE /\ DW2 = 2^128 /\ Need = -124 /\ PN = 2^124 /\ K = 4 /\ PK = 2^4 /\ PK1 = 2^3
C_I0F8_I128F0 == SS = TRUE /\ SW2 = 2^8 /\ DS = TRUE /\ DW2 = 2^128 /\ Need = 8 /\ PN = 2^8 /\ K = 136 /\ PK = 2^136 /\ PK1 = 2^135
=============================================================================
