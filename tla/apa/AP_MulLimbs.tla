----------------------------- MODULE AP_MulLimbs ---------------------------
(* Apalache wrapper: the real limb base (TLC refuses to parse 2^64 as a literal). *)
EXTENDS MulLimbs
CInitS   == H = 2^64 /\ SIGNED = TRUE /\ F = 64
CInitU   == H = 2^64 /\ SIGNED = FALSE /\ F = 64
CInitS1  == H = 2^64 /\ SIGNED = TRUE /\ F = 1
CInitS127 == H = 2^64 /\ SIGNED = TRUE /\ F = 127
CInitU1  == H = 2^64 /\ SIGNED = FALSE /\ F = 1
CInitU127 == H = 2^64 /\ SIGNED = FALSE /\ F = 127
=============================================================================
