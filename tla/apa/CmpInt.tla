-------------------------------- MODULE CmpInt ------------------------------
(***************************************************************************)
(* Layer A at the REAL widths: mixed-layout comparison as coded in          *)
(* src/cmp.rs (fixed_cmp_fixed!: the right operand is re-expressed in the   *)
(* left operand's layout by to_fixed_helper, cast, sign-checked -- the      *)
(* repair of /repo commit ad4eb53 -- and compared; lost bits break the tie) *)
(* against the comparison of the two exact values, for EVERY pair of        *)
(* values.  The right operand is the "source" v of ConvInt, the left        *)
(* operand a ranges over the "destination" layout.  tla/alg/CmpAlg.tla is   *)
(* the same design for small widths (MC_Cmp, TLC).                          *)
(***************************************************************************)
EXTENDS ConvInt
VARIABLES
  \* @type: Int;
  a
InitC == Init /\ a \in DMin..DMax
NextC == UNCHANGED <<v, a>>
Lost == v # 0 /\ Need > 0 /\ (IF Need < 128 THEN (v \div PN) * PN # v ELSE TRUE)
Dir  == IF Lost THEN -1 ELSE 0
Bad  == HOverflow \/ ((Cast < 0) # (v < 0))                      \* conversion overflow, or the cast changed the sign
ACmp == IF a >= 0 /\ v < 0 THEN 1
        ELSE IF a < 0 /\ v >= 0 THEN -1
        ELSE IF Bad THEN (IF v < 0 THEN 1 ELSE -1)
        ELSE IF a < Cast THEN -1 ELSE IF a > Cast THEN 1 ELSE Dir
AEq  == Dir = 0 /\ ~Bad /\ Cast = a
\* layer M: a / 2^fa  versus  v / 2^fv,  Need = fv - fa
Sgn(x) == IF x < 0 THEN -1 ELSE IF x > 0 THEN 1 ELSE 0
MCmp == IF Need >= 0 THEN Sgn(a * PN - v) ELSE Sgn(a - v * PN)
CmpOk == ACmp = MCmp /\ AEq = (MCmp = 0)
\* non-vacuity (expected to be violated): the sign check matters somewhere / ties are broken by lost bits somewhere
NoSignCase == ~(~HOverflow /\ ((Cast < 0) # (v < 0)) /\ ~(a >= 0 /\ v < 0) /\ ~(a < 0 /\ v >= 0))
NoLostTie  == ~(~Bad /\ a = Cast /\ Lost)
=============================================================================
