-------------------------------- MODULE ConvInt -----------------------------
(***************************************************************************)
(* Layer A at the REAL widths: fixed -> fixed / integer conversion as coded *)
(* in src/int_helper.rs (to_fixed_helper with its five shift arms relative  *)
(* to the 128-bit widest word) and src/traits.rs (overflowing_from_fixed,   *)
(* saturating_from_fixed), on plain integers, so that Apalache can compare  *)
(* it with  floor(v * 2^(fd - fs))  wrapped / clamped / flagged for EVERY   *)
(* source value of a layout pair.  It is tla/alg/ConvAlg.tla (which TLC     *)
(* checks for 1 296 layout pairs of widths 2..5, MC_Conv) with the          *)
(* leading-bit count of the overflow test                                   *)
(*     src_bits - dst_bits > need + leading                                 *)
(* rewritten as a comparison with a power of two:                           *)
(*     v >= 2^(dst_bits + need)             for v > 0                        *)
(*     -v - 1 >= 2^(dst_bits + need - 1)    for v < 0                        *)
(* (bitlen(x) > k  <=>  x >= 2^k; TLC checks this rewriting against the     *)
(* Leading operator of CmpAlg in MC_Conv's companion assumption).           *)
(* A configuration (AP_ConvInt.tla) fixes source and destination layout and *)
(* supplies the powers of two as constants.                                 *)
(***************************************************************************)
EXTENDS Integers
CONSTANTS
  \* @type: Bool;
  SS,      \* source signed
  \* @type: Int;
  SW2,     \* 2^(source width)
  \* @type: Bool;
  DS,      \* destination signed
  \* @type: Int;
  DW2,     \* 2^(destination width)
  \* @type: Int;
  Need,    \* src_frac - dst_frac  (right shift when positive)
  \* @type: Int;
  PN,      \* 2^|Need|
  \* @type: Int;
  K,       \* dst_bits + Need
  \* @type: Int;
  PK,      \* 2^K      (any value when K < 0)
  \* @type: Int;
  PK1      \* 2^(K-1)  (any value when K < 1)
VARIABLES
  \* @type: Int;
  v
W128 == 2^128
SMin == IF SS THEN -(SW2 \div 2) ELSE 0
SMax == IF SS THEN (SW2 \div 2) - 1 ELSE SW2 - 1
DMin == IF DS THEN -(DW2 \div 2) ELSE 0
DMax == IF DS THEN (DW2 \div 2) - 1 ELSE DW2 - 1
FitsD(r) == DMin <= r /\ r <= DMax
WrapD(r) == ((r - DMin) % DW2) + DMin
Init == v \in SMin..SMax
Next == UNCHANGED v
\* a 128-bit word after a shift: i128 in the signed arm, u128 in the unsigned arm
Word(x) == IF SS THEN ((x + W128 \div 2) % W128) - W128 \div 2 ELSE x % W128
\* to_fixed_helper: bits and the overflow verdict
Bits == IF v = 0 THEN 0
        ELSE IF Need <= -128 THEN 0
        ELSE IF Need < 0 THEN Word(v * PN)
        ELSE IF Need = 0 THEN v
        ELSE IF Need < 128 THEN v \div PN                      \* arithmetic shift = floor
        ELSE (IF v < 0 THEN -1 ELSE 0)
HOverflow == IF v = 0 THEN FALSE
             ELSE IF v > 0 THEN (K < 0 \/ v >= PK)
             ELSE (K < 1 \/ -v - 1 >= PK1)
Cast == WrapD(Bits)                                            \* `bits as $Bits`
SignFlip == IF DS THEN v > 0 /\ Cast < 0 ELSE v < 0            \* Widest::Unsigned cast negative / Widest::Negative into unsigned
AOverflowing == <<Cast, HOverflow \/ SignFlip>>
ASaturating == IF HOverflow THEN (IF v < 0 THEN DMin ELSE DMax)
               ELSE IF DS THEN (IF v > 0 /\ Cast < 0 THEN DMax ELSE Cast)
               ELSE (IF v < 0 THEN DMin ELSE Cast)
(* ------------------------------ layer M --------------------------------- *)
R == IF Need >= 0 THEN v \div PN ELSE v * PN                   \* floor(v * 2^(fd - fs))
OverflowingOk == AOverflowing = <<WrapD(R), ~FitsD(R)>>
SaturatingOk  == ASaturating = (IF R < DMin THEN DMin ELSE IF R > DMax THEN DMax ELSE R)
AllOk == OverflowingOk /\ SaturatingOk
\* non-vacuity (expected to be violated where the pair can overflow)
NeverOverflows == ~AOverflowing[2]
=============================================================================
