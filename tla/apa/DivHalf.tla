------------------------------- MODULE DivHalf -----------------------------
(***************************************************************************)
(* Layer A: one step of the 256-by-128-bit long division of                 *)
(* src/wide_div.rs (DivHalf::div_half), H = limb base (2^64 in the code).   *)
(* Given a normalised divisor d (top bit set), a running remainder r < d    *)
(* and the next half-word nh, the step returns the quotient digit q and the *)
(* new remainder with   r * H + nh = q * d + newr,  0 <= newr < d,  q < H.  *)
(* Checked by TLC for every (d, r, nh) at H in {4, 8, 16} and by Apalache   *)
(* for ALL operands at H = 2^64 (AP_DivHalf.tla).  q0 / rr enter as         *)
(* variables constrained by r = q0 * dh + rr so the SMT query stays simple. *)
(***************************************************************************)
EXTENDS Integers
CONSTANT
  \* @type: Int;
  H
VARIABLES
  \* @type: Int;
  r,
  \* @type: Int;
  d,
  \* @type: Int;
  nh,
  \* @type: Int;
  q0,
  \* @type: Int;
  rr
W  == H * H
dh == d \div H
dl == d % H
Init ==
  /\ d \in (W \div 2)..(W - 1)          \* normalised divisor
  /\ r \in 0..(W - 1) /\ r < d          \* running remainder below the divisor
  /\ nh \in 0..(H - 1)
  /\ q0 \in 0..(W - 1) /\ rr \in 0..(H - 1)
  /\ r = q0 * dh + rr /\ rr < dh        \* (q0, rr) = (r / dh, r % dh)
Next == UNCHANGED <<r, d, nh, q0, rr>>
m    == q0 * dl                          \* let m = q * d.lo();
s0   == (rr * H + nh) % W                \* *self = rr.up_lo(next_half);
s1   == s0 + d                           \* self.overflowing_add(d)
ovf1 == s1 >= W
s1w  == s1 % W
second == (s0 < m) /\ ~ovf1 /\ (s1w < m)
q    == IF s0 < m THEN (IF second THEN q0 - 2 ELSE q0 - 1) ELSE q0
sAdj == IF s0 < m THEN (IF second THEN (s1w + d) % W ELSE s1w) ELSE s0
newr == (sAdj - m) % W                   \* self.wrapping_sub(m)
StepExact == /\ r * H + nh = q * d + newr
             /\ newr >= 0 /\ newr < d
             /\ q >= 0 /\ q < H
\* non-vacuity: both correction branches are reachable (expected to be violated)
NoFirst  == ~(s0 < m)
NoSecond == ~second
=============================================================================
