CONSTANTS
  H = 16
INIT Init
NEXT Next
INVARIANT StepExact
CHECK_DEADLOCK FALSE
