CONSTANTS
  H = 4
INIT Init
NEXT Next
INVARIANT StepExact
CHECK_DEADLOCK FALSE
