CONSTANTS
  H = 8
INIT Init
NEXT Next
INVARIANT StepExact
CHECK_DEADLOCK FALSE
