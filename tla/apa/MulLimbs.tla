------------------------------ MODULE MulLimbs -----------------------------
(***************************************************************************)
(* Layer A: the four-limb schoolbook product of src/arith.rs                *)
(* (mul_div_fallback::mul_overflow, used by FixedI128 / FixedU128), one     *)
(* operator per statement of the code.  H is the limb base: 2^64 in the     *)
(* code.  The same module is checked                                        *)
(*   - by TLC for EVERY operand with H in {4, 8, 16} (MulLimbs_tlc*.cfg),   *)
(*   - by Apalache symbolically for ALL operands at H = 2^64                *)
(*     (AP_MulLimbs.tla gives the constant; --length=0, the invariant is    *)
(*     proved over the initial-state predicate).                            *)
(* The partial products enter as variables constrained p = x * y so that    *)
(* the SMT queries stay (almost) linear.                                    *)
(***************************************************************************)
EXTENDS Integers
CONSTANTS
  \* @type: Int;
  H,
  \* @type: Bool;
  SIGNED,
  \* @type: Int;
  F                          \* fractional bits, 1 .. (bits of the word) - 1
VARIABLES
  \* @type: Int;
  lh,
  \* @type: Int;
  ll,
  \* @type: Int;
  rh,
  \* @type: Int;
  rl,
  \* @type: Int;
  p00,
  \* @type: Int;
  p10,
  \* @type: Int;
  p01,
  \* @type: Int;
  p11

HH == H \div 2
W  == H * H                 \* the word: 2^128
WH == HH * H                \* 2^127
HiRange == IF SIGNED THEN (-HH)..(HH - 1) ELSE 0..(H - 1)

Init ==
  /\ lh \in HiRange /\ ll \in 0..(H - 1) /\ rh \in HiRange /\ rl \in 0..(H - 1)
  /\ p00 = ll * rl /\ p10 = lh * rl /\ p01 = ll * rh /\ p11 = lh * rh
Next == UNCHANGED <<lh, ll, rh, rl, p00, p10, p01, p11>>

\* two's complement wrap of a word
WrapW(x) == IF SIGNED THEN ((x + WH) % W) - WH ELSE x % W

col01hi == p00 \div H                                  \* let (col01_hi, col01_lo) = col01.hi_lo();
col01lo == p00 % H
partial == p10 + col01hi                               \* let partial_col12 = lh_rl + col01_hi   (plain +)
sum12   == partial + p01
col12   == WrapW(sum12)                                \* carrying_add(partial_col12, ll_rh)
carry   == IF sum12 = col12 THEN 0
           ELSE IF SIGNED THEN (IF col12 < 0 THEN 1 ELSE -1) ELSE 1
col12hi == col12 \div H                                \* arithmetic shift for i128
col12lo == col12 % H
ans01   == col12lo * H + col01lo                       \* col12_lo.shift_lo_up_unsigned() + col01_lo
ans23   == p11 + col12hi + carry * H                   \* lh_rh + col12_hi + carry_col3.shift_lo_up()
Exact   == (lh * H + ll) * (rh * H + rl)

\* L1: the limbs recombine to the exact double-width product and no plain '+' overflows the word
Recombine ==
  /\ (IF SIGNED THEN partial >= -WH /\ partial < WH ELSE partial >= 0 /\ partial < W)
  /\ (IF SIGNED THEN ans23 >= -WH /\ ans23 < WH ELSE ans23 >= 0 /\ ans23 < W)
  /\ ans01 >= 0 /\ ans01 < W
  /\ ans23 * W + ans01 = Exact
\* L2: combine_lo_then_shl(ans23, ans01, F) returns floor(product / 2^F) modulo the word, and the exact overflow flag
P2F     == 2^F
lo_shr  == ans01 \div P2F                              \* (lo >> shift)
hi_shl  == WrapW(ans23 * (W \div P2F))                 \* self << (128 - shift), wrapping
ans     == lo_shr + hi_shl                              \* lo | hi: the bit ranges do not overlap
ovf     == IF SIGNED THEN (ans23 \div P2F) # (IF ans < 0 THEN -1 ELSE 0)
           ELSE (ans23 \div P2F) # 0
\* the exact product written with the partial products (linear for the SMT solver; Recombine proves
\* ans23 * W + ans01 = Exact, and Exact = ExactP by distributivity)
ExactP  == p11 * W + (p10 + p01) * H + p00
Rfull   == ExactP \div P2F                             \* the exact result (floor)
Distrib == ExactP = Exact
Combine ==
  /\ ans = WrapW(Rfull)
  /\ ovf = (IF SIGNED THEN Rfull < -WH \/ Rfull >= WH ELSE Rfull >= W)

\* L5: the debug assertion of shift_lo_up as repaired (/repo commit 1f0dd75): carry >> 64 is 0 or -1
AssertFixed   == carry \in {-1, 0, 1} /\ (carry \div H = 0 \/ carry \div H = -1)
\* ... and as originally coded (carry >> 64 == 0): refuted for SIGNED (a witness has carry = -1)
AssertOriginal == carry \div H = 0
\* non-vacuity: each carry value is reachable (these "invariants" are expected to be violated)
NoCarryPlus  == carry # 1
NoCarryMinus == carry # -1
=============================================================================
