CONSTANTS
  H = 4
  SIGNED = TRUE
  F = 2
INIT Init
NEXT Next
INVARIANT Recombine
INVARIANT AssertFixed
INVARIANT Combine
CHECK_DEADLOCK FALSE
