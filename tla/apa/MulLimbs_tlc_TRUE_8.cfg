CONSTANTS
  H = 8
  SIGNED = TRUE
  F = 3
INIT Init
NEXT Next
INVARIANT Recombine
INVARIANT AssertFixed
INVARIANT Combine
CHECK_DEADLOCK FALSE
