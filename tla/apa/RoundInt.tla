------------------------------- MODULE RoundInt -----------------------------
(***************************************************************************)
(* Layer A at the REAL widths: the rounding methods of src/macros_round.rs  *)
(* (masks INT_MASK / FRAC_MASK / INT_LSB / FRAC_MSB, the special cases for  *)
(* 0 and 1 integer bits and for signedness) written on plain integers, so   *)
(* that Apalache can compare them with the exact roundings for EVERY value  *)
(* of a layout given by  W2 = 2^width, F2 = 2^frac, S = signedness.         *)
(* It is the transcription tla/alg/RoundAlg.tla (which TLC checks for every *)
(* value of 68 small layouts, MC_Round) with  x & INT_MASK = x - (x mod F2) *)
(* and  x & FRAC_MASK = x mod F2.  Layouts: AP_RoundInt.tla (19 of them:    *)
(* 0, 1, 2, half and all integer bits at 16 .. 128 bits, both signs).       *)
(***************************************************************************)
EXTENDS Integers
CONSTANTS
  \* @type: Int;
  W2,
  \* @type: Int;
  F2,
  \* @type: Bool;
  S
VARIABLES
  \* @type: Int;
  a
MinV == IF S THEN -(W2 \div 2) ELSE 0
MaxV == IF S THEN (W2 \div 2) - 1 ELSE W2 - 1
Fits(r) == MinV <= r /\ r <= MaxV
Wrap(r) == ((r - MinV) % W2) + MinV
Init == a \in MinV..MaxV
Next == UNCHANGED a

NoInt  == F2 = W2                     \* INT_NBITS = 0
OneInt == 2 * F2 = W2                 \* INT_NBITS = 1
IntLsb == IF NoInt THEN 0 ELSE F2
FracMsb == IF F2 >= 2 THEN F2 \div 2 ELSE 0
AInt   == IF NoInt THEN 0 ELSE a - (a % F2)               \* self.int(): bits & INT_MASK (the mask is 0 without integer bits; otherwise the floor is representable)
AFrac  == a % F2                                           \* bits & FRAC_MASK
Inc    == Wrap(IntLsb)                                     \* from_bits(INT_LSB): -1 unit for a signed type with one integer bit
\* @type: (Int, Int) => <<Int, Bool>>;
OAdd(x, y) == <<Wrap(x + y), ~Fits(x + y)>>
\* @type: (Int, Int) => <<Int, Bool>>;
OSub(x, y) == <<Wrap(x - y), ~Fits(x - y)>>
HasHalf == FracMsb # 0 /\ ((a % F2) \div FracMsb) % 2 = 1    \* (bits & FRAC_MSB) != 0

ACeil == IF AFrac = 0 THEN <<AInt, FALSE>>
         ELSE IF NoInt THEN <<AInt, a > 0>>
         ELSE IF S /\ OneInt THEN OSub(AInt, Inc)
         ELSE OAdd(AInt, Inc)
AFloor == IF S /\ NoInt THEN <<AInt, a < 0>> ELSE <<AInt, FALSE>>
ARound == LET tie == AFrac = FracMsb IN
          IF ~HasHalf THEN <<AInt, FALSE>>
          ELSE IF S THEN (IF NoInt THEN <<AInt, tie>>
                          ELSE IF tie /\ a < 0 THEN <<AInt, FALSE>>
                          ELSE IF OneInt THEN OSub(AInt, Inc)
                          ELSE OAdd(AInt, Inc))
          ELSE (IF NoInt THEN <<AInt, TRUE>> ELSE OAdd(AInt, Inc))
ARte == IF ~HasHalf THEN <<AInt, FALSE>>
        ELSE IF AFrac = FracMsb /\ (IntLsb = 0 \/ (AInt \div IntLsb) % 2 = 0) THEN <<AInt, FALSE>>
        ELSE IF S THEN (IF OneInt THEN OSub(AInt, Inc) ELSE OAdd(AInt, Inc))
        ELSE (IF NoInt THEN <<AInt, TRUE>> ELSE OAdd(AInt, Inc))
ARtz == IF S /\ a < 0 /\ AFrac # 0
        THEN (IF OneInt THEN Wrap(AInt - Inc) ELSE Wrap(AInt + Inc))
        ELSE AInt

(* ------------- layer M: the exact roundings, in units of 2^-frac ---------- *)
Fl   == a - (a % F2)                                        \* floor to a multiple of F2
Ce   == IF a % F2 = 0 THEN a ELSE Fl + F2
\* ties away from zero / to even: compare twice the fraction with F2
Rnd  == IF 2 * (a % F2) < F2 THEN Fl
        ELSE IF 2 * (a % F2) > F2 THEN Fl + F2
        ELSE IF a >= 0 THEN Fl + F2 ELSE Fl                  \* tie: away from zero
Rte  == IF 2 * (a % F2) < F2 THEN Fl
        ELSE IF 2 * (a % F2) > F2 THEN Fl + F2
        ELSE IF (Fl \div F2) % 2 = 0 THEN Fl ELSE Fl + F2     \* tie: to the even integer
Rtz  == IF a >= 0 THEN Fl ELSE Ce
\* @type: (<<Int, Bool>>, Int) => Bool;
Is(p, r) == p[1] = Wrap(r) /\ p[2] = ~Fits(r)
CeilOk  == Is(ACeil, Ce)
FloorOk == Is(AFloor, Fl)
RoundOk == Is(ARound, Rnd)
RteOk   == Is(ARte, Rte)
RtzOk   == Fits(Rtz) => ARtz = Rtz                           \* round_to_zero has no overflowing form of its own in RoundAlg
AllOk   == CeilOk /\ FloorOk /\ RoundOk /\ RteOk /\ RtzOk
\* non-vacuity (expected to be violated): rounding up overflows somewhere
NeverOverflows == ~ACeil[2]
=============================================================================
