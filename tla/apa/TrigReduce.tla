------------------------------ MODULE TrigReduce ----------------------------
(***************************************************************************)
(* Layer A, design lemma for C16 / C12: the argument reduction of sin      *)
(* (src/transcendental.rs: `angle %= two_pi`, the two period corrections,   *)
(* the two mirror steps) on the raw bits, for a layout with f = 23 + log2 K *)
(* fractional bits (the I9F23 constants are widened exactly, i.e. multiplied *)
(* by K).  For EVERY angle a0 with |a0| <= 200 -- Apalache, symbolically,    *)
(* at K = 1 (I9F23), 2^9 (I32F32), 2^41 (I64F64), 2^65 (I40F88):            *)
(*   InRange   the angle handed to the CORDIC rotation lies in [-pi/2, pi/2] *)
(*             (as bits: |a5| <= HPI), where the rotation converges;         *)
(*   Period    the reduced angle is a0 - k * TWO_PI for a whole k, |k| <= 32 *)
(*             -- so the reduction error is at most 32 |TWO_PI - 2 pi|;      *)
(*   Mirror    the mirrored angle is a3, 2*HPI - a3 or -2*HPI - a3: the sine *)
(*             symmetries about +-pi/2, with 2*HPI one I9F23 ulp below PI;   *)
(*   Fits      every intermediate fits a 9-integer-bit signed type, also    *)
(*             for cos (a0 + pi/2) and for tan (|a0| <= 100, doubled).       *)
(* TLC checks the same at K = 1 for the angles of a window (small model).    *)
(* The arithmetic lemma |TWO_PI - 2 pi| < 2^-24 etc. is MC_TrigConst.        *)
(***************************************************************************)
EXTENDS Integers, TrigTables
CONSTANT
  \* @type: Int;
  K
VARIABLES
  \* @type: Int;
  a0
TWOPI == TWOPI23 * K
PI    == PI23 * K
HPI   == HPI23 * K
ONE   == ONE23 * K
Lim   == 256 * ONE                       \* a 9-integer-bit signed type holds [-Lim, Lim)
TruncRem(a, b) == IF a >= 0 THEN a % b ELSE -((-a) % b)
R1(a) == TruncRem(a, TWOPI)
R2(a) == IF R1(a) > PI THEN R1(a) - TWOPI ELSE R1(a)
R3(a) == IF R2(a) < -PI THEN R2(a) + TWOPI ELSE R2(a)
R4(a) == IF R3(a) > HPI THEN HPI - (R3(a) - HPI) ELSE R3(a)
R5(a) == IF R4(a) < -HPI THEN -HPI - (R4(a) + HPI) ELSE R4(a)
In(x) == -Lim <= x /\ x < Lim
Init == a0 \in (-(200 * ONE))..(200 * ONE)
Next == UNCHANGED a0
InRange == -HPI <= R5(a0) /\ R5(a0) <= HPI
Period  == \E k \in -32..32 : R3(a0) = a0 - k * TWOPI
Mirror  == R5(a0) = R3(a0) \/ R5(a0) = 2 * HPI - R3(a0) \/ R5(a0) = -2 * HPI - R3(a0)
FitsSin(a) == In(R1(a)) /\ In(R2(a)) /\ In(R3(a)) /\ In(R3(a) - HPI) /\ In(R4(a)) /\ In(R4(a) + HPI) /\ In(R5(a))
Fits    == /\ FitsSin(a0)
           /\ In(a0 + HPI) /\ FitsSin(a0 + HPI)                                       \* cos(x) = sin(x + pi/2)
           /\ ((-(100 * ONE) <= a0 /\ a0 <= 100 * ONE) => In(2 * a0) /\ FitsSin(2 * a0) /\ In(2 * a0 + HPI) /\ FitsSin(2 * a0 + HPI))
\* non-vacuity: both mirror branches and both period corrections are reachable (expected to be violated)
NoMirrorUp   == ~(R3(a0) > HPI)
NoMirrorDown == ~(R4(a0) < -HPI)
NoCorrection == R2(a0) = R1(a0)
=============================================================================
