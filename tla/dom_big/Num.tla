-------------------------------- MODULE Num --------------------------------
(***************************************************************************)
(* Number domain "big": arbitrary-precision integers (BigInt.tla).          *)
(* The semantic modules (Sem*.tla) are written against the operators        *)
(* declared here; tla/dom_int/Num.tla gives the same interface on TLC's     *)
(* native 32-bit integers.  The driver selects the domain through           *)
(* -DTLA-Library.                                                           *)
(* JSON encoding of a number in this domain: <<neg, l1, l2, ...>> with      *)
(* neg in {0,1} and little-endian limbs base 2^15.                          *)
(***************************************************************************)
EXTENDS BigInt, Bitwise

DomName == "big"
ZJ(j)        == Z(j[1] = 1, NNorm(Tail(j)))
ZI(n)        == ZFromInt(n)
ZToInt(a)    == (IF a.neg THEN -1 ELSE 1) * NToInt(a.mag)        \* |a| < 2^30
ZBitLen(a)   == NBitLen(a.mag)
ZBitAbs(a, i) == NBit(a.mag, i)
\* value of (R mod 2^w) read as a signed / unsigned w-bit two's complement pattern
ZWrap(R, signed, w) == ZOfBits(ZModPow2(R, w), signed, w)
ZUMod2(R, w) == Z(FALSE, ZModPow2(R, w))
ZPow(a, e)   == Z(a.neg /\ e % 2 = 1, NPow(a.mag, e))
\* bit operations on non-negative patterns, limb by limb
NLimbOp(Op(_, _), a, b) == NNorm([i \in 1..MaxI(Len(a), Len(b)) |-> Op(Limb(a, i), Limb(b, i))])
ZBitAnd(x, y) == Z(FALSE, NLimbOp(LAMBDA p, q : p & q, x.mag, y.mag))
ZBitOr(x, y)  == Z(FALSE, NLimbOp(LAMBDA p, q : p | q, x.mag, y.mag))
ZBitXor(x, y) == Z(FALSE, NLimbOp(LAMBDA p, q : p ^^ q, x.mag, y.mag))
ZMin(a, b)   == IF ZLe(a, b) THEN a ELSE b
ZMax(a, b)   == IF ZLe(a, b) THEN b ELSE a
=============================================================================
