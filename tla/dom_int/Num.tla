-------------------------------- MODULE Num --------------------------------
(***************************************************************************)
(* Number domain "int": TLC's native integers.  Only sound while every      *)
(* intermediate value stays below 2^31 in magnitude; the driver uses it     *)
(* for the 8-bit layouts (|bits| <= 2^8, shifts <= 16) and for the          *)
(* small-width design models.  Same interface as tla/dom_big/Num.tla.       *)
(* JSON encoding of a number in this domain: a plain JSON integer.          *)
(***************************************************************************)
EXTENDS Integers, Sequences, Bitwise

DomName == "int"
MinI(a, b) == IF a < b THEN a ELSE b
MaxI(a, b) == IF a > b THEN a ELSE b
RECURSIVE P2(_)
P2(k) == IF k = 0 THEN 1 ELSE 2 * P2(k - 1)
ZJ(j)        == j
ZI(n)        == n
ZToInt(a)    == a
Z0           == 0
ZIsZero(a)   == a = 0
ZSign(a)     == IF a = 0 THEN 0 ELSE IF a < 0 THEN -1 ELSE 1
ZNeg(a)      == -a
ZAbs(a)      == IF a < 0 THEN -a ELSE a
ZAdd(a, b)   == a + b
ZSub(a, b)   == a - b
ZMul(a, b)   == a * b
ZCmp(a, b)   == IF a < b THEN -1 ELSE IF a > b THEN 1 ELSE 0
ZLt(a, b)    == a < b
ZLe(a, b)    == a <= b
ZEq(a, b)    == a = b
ZPow2(k)     == P2(k)
ZShl(a, k)   == a * P2(k)
ZFloorShr(a, k) == a \div P2(k)                       \* TLC's \div floors
ZTruncDiv(a, b) == LET q == ZAbs(a) \div ZAbs(b) IN IF (a < 0) # (b < 0) THEN -q ELSE q
ZTruncRem(a, b) == a - b * ZTruncDiv(a, b)
ZFloorDiv(a, b) == a \div b                           \* b > 0
ZMod(a, b)   == a % b                                 \* b > 0
RECURSIVE BitLenI(_)
BitLenI(v) == IF v = 0 THEN 0 ELSE 1 + BitLenI(v \div 2)
ZBitLen(a)   == BitLenI(ZAbs(a))
ZBitAbs(a, i) == (ZAbs(a) \div P2(i)) % 2
ZUMod2(R, w) == R % P2(w)
ZWrap(R, signed, w) == LET m == R % P2(w) IN IF signed /\ m >= P2(w - 1) THEN m - P2(w) ELSE m
\* bit operations on non-negative patterns
ZBitAnd(x, y) == x & y
ZBitOr(x, y)  == x | y
ZBitXor(x, y) == x ^^ y
RECURSIVE ZPow(_, _)
ZPow(a, e)   == IF e = 0 THEN 1 ELSE a * ZPow(a, e - 1)
ZMin(a, b)   == IF a <= b THEN a ELSE b
ZMax(a, b)   == IF a <= b THEN b ELSE a
=============================================================================
