INIT Init
NEXT Next
