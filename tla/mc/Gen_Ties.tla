------------------------------- MODULE Gen_Ties ----------------------------
(***************************************************************************)
(* spec -> impl for parsing (C08): the specification computes, in exact     *)
(* arithmetic, the decimal expansion of rounding ties (2k+1) / 2^(f+1) of   *)
(* a layout -- the literals only the model knows are interesting -- and     *)
(* prints them with their neighbours (proper prefix, last digit -1 / +1,    *)
(* tie followed by 0001) as JSON lines.  The harness parses each literal    *)
(* with the real FromStr in all four forms and the recorded outcomes are    *)
(* validated by the trace specification (Accept / ParseR) as usual.         *)
(***************************************************************************)
EXTENDS SemText, TLC, Json

\* decimal digits (most significant first) of a non-negative integer
RECURSIVE DigitsOf(_)
DigitsOf(z) == IF ZIsZero(z) THEN <<>> ELSE Append(DigitsOf(ZFloorDiv(z, ZI(10))), ZToInt(ZMod(z, ZI(10))))

\* the literal of num / 2^k as <<integer digits, fraction digits (exactly k of them)>>
ExactDec(num, k) ==
  LET ds == DigitsOf(ZMul(num, ZPow(ZI(5), k)))                 \* num * 5^k / 10^k
      pad == IF Len(ds) < k + 1 THEN [i \in 1..(k + 1 - Len(ds)) |-> 0] \o ds ELSE ds
  IN <<SubSeq(pad, 1, Len(pad) - k), SubSeq(pad, Len(pad) - k + 1, Len(pad))>>

Bytes(neg, int, frac) == (IF neg THEN <<45>> ELSE <<>>) \o [i \in 1..Len(int) |-> 48 + int[i]]
                         \o <<46>> \o [i \in 1..Len(frac) |-> 48 + frac[i]]

Widths == {8, 16, 32, 64, 128}
FracsOf(w) == {0, 1, 2, w \div 4, w \div 2 - 1, w \div 2, w \div 2 + 1, (3 * w) \div 4, w - 2, w - 1, w}
GenLayouts == {<<s, w, f>> \in {0, 1} \X Widths \X (0..128) : f \in FracsOf(w)}

\* tie numerators k (between k and k+1 ulps) for a layout: edges of the range and two interior patterns
Ks(L) == LET mx == MaxV(L) IN
         { Z0, ZI(1), ZI(2), ZFloorShr(mx, 1), ZSub(mx, ZI(1)), ZFloorShr(ZMul(mx, ZI(51)), 8), ZFloorShr(ZMul(mx, ZI(179)), 8) }

Literals(L, k) ==
  LET f  == LF(L)
      ed == ExactDec(ZAdd(ZShl(k, 1), ZI(1)), f + 1)
      int == ed[1]  fr == ed[2]  n == Len(fr)
      last == fr[n]
  IN { Bytes(FALSE, int, fr),                                                       \* the tie itself
       Bytes(FALSE, int, SubSeq(fr, 1, n - 1)),                                     \* a proper prefix (below the tie)
       Bytes(FALSE, int, [fr EXCEPT ![n] = IF last = 0 THEN 1 ELSE last - 1]),      \* just below
       Bytes(FALSE, int, [fr EXCEPT ![n] = IF last = 9 THEN 9 ELSE last + 1]),      \* just above
       Bytes(FALSE, int, fr \o <<0, 0, 0, 1>>),                                     \* a hair above
       Bytes(LS(L), int, fr) }                                                      \* negative tie (signed layouts)

Emit == \A L \in GenLayouts : \A k \in Ks(L) : \A s \in Literals(L, k) :
           PrintT(<<"LIT", ToJson([L |-> L, rx |-> 10, s |-> s])>>)
ASSUME Emit
VARIABLE x
Init == x = 0
Next == x' = x
=============================================================================
