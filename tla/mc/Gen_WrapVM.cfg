CONSTANTS
  NReg = 4
  MaxSteps = 12
  Layouts <- GenLayouts
  ShiftAmts <- GenShifts
  UseShadow = FALSE
INIT Init
NEXT GenNext
INVARIANT TypeOK
INVARIANT Emit
CHECK_DEADLOCK FALSE
