------------------------------ MODULE Gen_WrapVM ---------------------------
(***************************************************************************)
(* spec -> impl: TLC simulates the Wrapping<F> register machine on the real *)
(* 8-bit layouts and prints every completed program as one JSON line; the   *)
(* harness replays the programs on the real Wrapping<F> and the recorded    *)
(* steps are validated by the trace specification like any other trace.     *)
(***************************************************************************)
EXTENDS WrapVM, Json, Randomization
GenLayouts == {<<s, 8, f>> : s \in {0, 1}, f \in 0..8}
GenShifts  == {-9, -8, -1, 0, 1, 3, 7, 8, 9, 15, 16, 250}
\* operands for loads / integer right-hand sides: the boundary lattice of an 8-bit word
GenVals(L) == LET lo == ZToInt(MinV(L))  hi == ZToInt(MaxV(L)) IN
              {v \in {lo, lo + 1, lo + 2, -3, -2, -1, 0, 1, 2, 3, 5, 7, 8, 15, 16, 31, 32, 63, 64, 100, hi - 2, hi - 1, hi,
                      (lo + hi) \div 2, (lo + hi) \div 2 + 1} : lo <= v /\ v <= hi}
GenSteps(L) == {e \in Steps(L) : ("v" \in DOMAIN e => e.v \in GenVals(L)) /\ (e.op \in WIntOps => e.n \in GenVals(L))}
\* a random sample of the enabled steps keeps one simulation step cheap
GenNext == \E e \in RandomSubset(24, GenSteps(lay)) : Step(e)
Emit == steps = MaxSteps => PrintT(<<"PROG", ToJson([L |-> lay, steps |-> prog])>>)
=============================================================================
