INIT Init
NEXT Next
