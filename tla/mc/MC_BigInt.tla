----------------------------- MODULE MC_BigInt -----------------------------
(* Self-check of BigInt.tla against TLC's native integers and algebraic identities. *)
EXTENDS BigInt, TLC
R == -70..70
ToI(z) == (IF z.neg THEN -1 ELSE 1) * NToInt(z.mag)
TD(a, b) == LET q == (IF a < 0 THEN -a ELSE a) \div (IF b < 0 THEN -b ELSE b) IN IF (a < 0) # (b < 0) THEN -q ELSE q
\* pseudo-random limbs
Lcg(x) == (x * 1103 + 12345) % 32768
RECURSIVE Rand(_, _)
Rand(seed, n) == IF n = 0 THEN <<>> ELSE <<Lcg(seed)>> \o Rand(Lcg(seed) + n, n - 1)
RN(seed, n) == NNorm(Rand(seed, n))
ASSUME \A a \in R, b \in R :
   /\ ToI(ZAdd(ZFromInt(a), ZFromInt(b))) = a + b
   /\ ToI(ZSub(ZFromInt(a), ZFromInt(b))) = a - b
   /\ ToI(ZMul(ZFromInt(a*400), ZFromInt(b*300))) = a * b * 120000
   /\ ZCmp(ZFromInt(a), ZFromInt(b)) = (IF a < b THEN -1 ELSE IF a > b THEN 1 ELSE 0)
   /\ (b # 0 => ToI(ZTruncDiv(ZFromInt(a*9001), ZFromInt(b))) = TD(a*9001, b))
   /\ (b # 0 => ToI(ZTruncRem(ZFromInt(a*9001), ZFromInt(b))) = a*9001 - b * TD(a*9001, b))
   /\ (b > 0 => ToI(ZFloorDiv(ZFromInt(a*9001), ZFromInt(b))) = (a*9001) \div b)
   /\ (b > 0 => ToI(ZMod(ZFromInt(a*9001), ZFromInt(b))) = (a*9001) % b)
ASSUME \A a \in R, k \in 0..20 :
   /\ ToI(ZFloorShr(ZFromInt(a*100003), k)) = (a*100003) \div P2(k)
   /\ (k <= 8 => ToI(ZShl(ZFromInt(a*1001), k)) = a*1001*P2(k))
   /\ NToInt(ZModPow2(ZFromInt(a*100003), k)) = (a*100003) % P2(k)
   /\ NBitLen(NFromInt((IF a < 0 THEN -a ELSE a) * 9973)) = BitLenI((IF a < 0 THEN -a ELSE a) * 9973)
\* multi-limb identities: (x*y + r) divmod y = (x, r), shifts invert, square of sum
ASSUME \A s \in 1..60, n \in 1..9, m \in 2..7 :
   LET x == RN(s, n)  y == RN(s * 7 + 1, m)
       r == IF y = <<>> THEN <<>> ELSE NDivMod(RN(s + 3, m), y)[2]
   IN y = <<>> \/
      /\ NDivMod(NAdd(NMul(x, y), r), y) = <<x, r>>
      /\ NMul(x, y) = NMul(y, x)
      /\ NShr(NShl(x, s + n), s + n) = x
      /\ NLowBits(NAdd(NShl(x, 37), <<5>>), 37) = <<5>>
      /\ NSub(NAdd(x, y), y) = x
      /\ NMul(NAdd(x, y), NAdd(x, y)) = NAdd(NAdd(NMul(x, x), NMul(y, y)), NMulLimb(NMul(x, y), 2))
      /\ ZModPow2(Z(TRUE, x), 200) = (IF x = <<>> THEN <<>> ELSE NSub(NPow2(200), x))
      /\ ZOfBits(ZModPow2(Z(TRUE, x), 200), TRUE, 200) = Z(TRUE, x)
ASSUME NPow(<<3>>, 40) = NMul(NPow(<<3>>, 20), NPow(<<3>>, 20))
ASSUME NDivMod(NPow(<<10>>, 40), NPow(<<5>>, 40)) = <<NPow2(40), <<>> >>
VARIABLE x
Init == x = 0
Next == x' = x
=============================================================================
