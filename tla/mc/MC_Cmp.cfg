CONSTANTS
  Widths = {3, 4, 5}
INIT Init
NEXT Next
INVARIANT Repaired
CHECK_DEADLOCK FALSE
