-------------------------------- MODULE MC_Cmp -----------------------------
(***************************************************************************)
(* A (comparison as coded) against M (exact rational comparison) for EVERY  *)
(* ordered pair of layouts of the configured widths and EVERY value pair.   *)
(*   Repaired:  the design with the sign check is exact.                    *)
(*   Original:  REFUTED (I3F0 vs U3F0: a value that needs all bits of the   *)
(*              signed left type is cast to a negative number).             *)
(***************************************************************************)
EXTENDS CmpAlg, TLC
CONSTANTS Widths
VARIABLES la, lb
Lay == {l \in {<<s, w, f>> : s \in {0, 1}, w \in Widths, f \in 0..8} : l[3] <= l[2]}
Init == la \in Lay /\ lb \in Lay
Next == UNCHANGED <<la, lb>>
Vals(L) == ZToInt(MinV(L))..ZToInt(MaxV(L))
Refines(check) == \A a \in Vals(la), b \in Vals(lb) :
   /\ ACmp(la, a, lb, b, check) = CmpVal(a, LF(la), b, LF(lb))
   /\ AEq(la, a, lb, b, check) = (CmpVal(a, LF(la), b, LF(lb)) = 0)
Repaired == Refines(TRUE)
Original == Refines(FALSE)
=============================================================================
