CONSTANTS
  Widths = {6}
INIT Init
NEXT Next
INVARIANT Repaired
CHECK_DEADLOCK FALSE
