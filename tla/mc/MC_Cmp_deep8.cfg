CONSTANTS
  Widths = {8}
INIT Init
NEXT Next
INVARIANT Repaired
CHECK_DEADLOCK FALSE
