CONSTANTS
  Widths = {3, 4}
INIT Init
NEXT Next
INVARIANT Original
CHECK_DEADLOCK FALSE
