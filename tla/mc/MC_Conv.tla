-------------------------------- MODULE MC_Conv ----------------------------
(***************************************************************************)
(* A (fixed -> fixed conversion as coded: to_fixed_helper + FromFixed) vs   *)
(* M (ConvR = floor shift, Fits, Wrap, Sat) for EVERY ordered pair of       *)
(* layouts of the configured widths (every width up to the widest word WW,  *)
(* as in the code) and EVERY source value:                                  *)
(*   overflowing_from_fixed = (R mod 2^w, R does not fit),                  *)
(*   saturating_from_fixed  = R clamped, lost-bits direction = "R < exact". *)
(*   Coded:   holds.                                                        *)
(*   NoSign:  REFUTED (without the sign test on the cast, U2F0(2) -> I2F0   *)
(*            is reported as -2 without overflow).                          *)
(***************************************************************************)
EXTENDS ConvAlg, TLC
CONSTANTS Widths
VARIABLES ls, ld
Lay == {l \in {<<s, w, f>> : s \in {0, 1}, w \in Widths, f \in 0..WW} : l[3] <= l[2]}
Init == ls \in Lay /\ ld \in Lay
Next == UNCHANGED <<ls, ld>>
Vals(L) == ZToInt(MinV(L))..ZToInt(MaxV(L))
Refines(variant) == \A v \in Vals(ls) :
   LET R == ConvR(v, LF(ls), LF(ld)) IN
   /\ AOverflowing(ls, v, ld, variant) = <<Wrap(R, ld), ~Fits(R, ld)>>
   /\ ASaturating(ls, v, ld, variant) = Sat(R, ld)
   /\ (HelperW(ls, v, LF(ld), LI(ld)).dir = 0) = Lossless(v, LF(ls), LF(ld))
Coded == Refines("coded")
NoSign == Refines("nosign")
\* the rewriting of the overflow test used by the real-width lemma tla/apa/ConvInt.tla:
\*   src_bits - leading > K   <=>   v >= 2^K (v > 0)   resp.   -v - 1 >= 2^(K-1) (v < 0)
ASSUME \A w \in 2..7, s \in BOOLEAN, K \in -3..10 :
         \A v \in (IF s THEN -P2n(w - 1) ELSE 0)..(IF s THEN P2n(w - 1) - 1 ELSE P2n(w) - 1) :
            v = 0 \/ ((w - Leading(v, w, s) > K)
                       = (IF v > 0 THEN K < 0 \/ v >= P2n(IF K < 0 THEN 0 ELSE K)
                          ELSE K < 1 \/ -v - 1 >= P2n(IF K < 1 THEN 0 ELSE K - 1)))
=============================================================================
