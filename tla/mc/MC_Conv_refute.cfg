CONSTANTS
  Widths = {2, 3, 4, 5}
  WW = 5
INIT Init
NEXT Next
INVARIANT NoSign
CHECK_DEADLOCK FALSE
