CONSTANTS
  Widths = {2, 3, 4, 5, 6}
INIT Init
NEXT Next
INVARIANT Conforms
INVARIANT UnsignedExact
CHECK_DEADLOCK FALSE
