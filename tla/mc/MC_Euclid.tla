------------------------------ MODULE MC_Euclid ----------------------------
(***************************************************************************)
(* Layer A (div_euclid family as coded, tla/alg/EuclidAlg.tla) against      *)
(* layer M for EVERY operand pair of every layout of the configured widths. *)
(*   Conforms:   the as-coded design equals M wherever the truncated        *)
(*               quotient fits and the +-1 adjustment is representable --   *)
(*               an exact characterisation of where the recorded finding    *)
(*               can bite (for unsigned types: nowhere).                    *)
(*   CodedIsM:   the as-coded design equals M everywhere -- REFUTED; the    *)
(*               counterexample (e.g. I2F2 / I4F4 operands) is the design-  *)
(*               level witness of the known finding of C07.                 *)
(***************************************************************************)
EXTENDS EuclidAlg, TLC
CONSTANTS Widths
VARIABLE lay
Init == lay \in {<<s, w, f>> : s \in {0, 1}, w \in Widths, f \in 0..8} /\ lay[3] <= lay[2]
Next == UNCHANGED lay
Vals(L) == ZToInt(MinV(L))..ZToInt(MaxV(L))

MOvf(kind, a, b, L) ==
  LET x == IF kind = "bin" THEN ExactBin("div_euclid", a, b, LF(L)) ELSE ExactBinI("div_euclid_int", a, b, LF(L))
  IN <<Wrap(x.R, L), ~Fits(x.R, L)>>
MChecked(kind, a, b, L) ==
  LET x == IF kind = "bin" THEN ExactBin("div_euclid", a, b, LF(L)) ELSE ExactBinI("div_euclid_int", a, b, LF(L))
  IN IF Fits(x.R, L) THEN <<TRUE, x.R>> ELSE <<FALSE, Z0>>

\* where the as-coded design is exact
Safe(kind, a, b, L) ==
  /\ Fits(TQuot(kind, a, b, L), L)
  /\ (LS(L) /\ RemNeg(kind, a, b, L) => Fits(Adj(b, L), L))

Conforms ==
  \A kind \in {"bin", "bini"} : \A a \in Vals(lay), b \in Vals(lay) \ {0} :
     Safe(kind, a, b, lay) =>
        /\ CodedOvf(kind, a, b, lay) = MOvf(kind, a, b, lay)
        /\ CodedChecked(kind, a, b, lay) = MChecked(kind, a, b, lay)
UnsignedExact ==
  ~LS(lay) => \A kind \in {"bin", "bini"} : \A a \in Vals(lay), b \in Vals(lay) \ {0} :
        /\ CodedOvf(kind, a, b, lay) = MOvf(kind, a, b, lay)
        /\ CodedChecked(kind, a, b, lay) = MChecked(kind, a, b, lay)
CodedIsM ==
  \A kind \in {"bin", "bini"} : \A a \in Vals(lay), b \in Vals(lay) \ {0} :
        /\ CodedOvf(kind, a, b, lay) = MOvf(kind, a, b, lay)
        /\ CodedChecked(kind, a, b, lay) = MChecked(kind, a, b, lay)
=============================================================================
