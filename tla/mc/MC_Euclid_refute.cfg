CONSTANTS
  Widths = {3, 4}
INIT Init
NEXT Next
INVARIANT CodedIsM
CHECK_DEADLOCK FALSE
