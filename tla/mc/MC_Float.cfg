CONSTANTS
  Widths = {3, 4, 6}
  FixMax = TRUE
  FixZero = TRUE
  FixSub = TRUE
INIT Init
NEXT Next
INVARIANT FloatConforms
CHECK_DEADLOCK FALSE
