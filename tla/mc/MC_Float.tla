------------------------------- MODULE MC_Float ----------------------------
(***************************************************************************)
(* A (float -> fixed and fixed/float comparison as coded) against M         *)
(* (FDec / FloatToFixR / CmpFloat) for EVERY bit pattern of two miniature   *)
(* float formats (8 and 10 bits) and EVERY value of every layout of the     *)
(* configured widths.  Repaired: exact.  The three original defects are     *)
(* each REFUTED when their switch is turned off.                            *)
(***************************************************************************)
EXTENDS FloatAlg, TLC
CONSTANTS Widths, FixMax, FixZero, FixSub
VARIABLES lay, ft
Init == /\ lay \in {<<s, w, f>> : s \in {0, 1}, w \in Widths, f \in 0..16} /\ lay[3] <= lay[2]
        /\ ft \in {8, 10}
Next == UNCHANGED <<lay, ft>>
Vals(L) == ZToInt(MinV(L))..ZToInt(MaxV(L))
MFromFloat(bits, L) ==
  LET fl == FDec(bits, ft) IN
  IF fl.cls # "fin" THEN <<TRUE, 0, FALSE>> ELSE LET R == FloatToFixR(fl, LF(L)) IN <<FALSE, Wrap(R, L), ~Fits(R, L)>>
FloatConforms ==
  \A bits \in 0..(P2n(ft) - 1) :
     /\ AFromFloat(bits, ft, lay, FixMax, FixZero, FixSub) = MFromFloat(bits, lay)
     /\ \A a \in Vals(lay) : ACmpFloat(a, lay, bits, ft, FixMax, FixZero, FixSub) = CmpFloat(a, LF(lay), FDec(bits, ft))
=============================================================================
