CONSTANTS
  Widths = {3, 4, 6}
  FixMax = TRUE
  FixZero = FALSE
  FixSub = TRUE
INIT Init
NEXT Next
INVARIANT FloatConforms
CHECK_DEADLOCK FALSE
