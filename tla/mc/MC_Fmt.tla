-------------------------------- MODULE MC_Fmt -----------------------------
(***************************************************************************)
(* Layer A (decimal digit generation as coded, tla/alg/FmtAlg.tla) against  *)
(* layer M (C09) for EVERY value of the 18 real 8-bit layouts and           *)
(* precisions {automatic, 0..9}.                                            *)
(*   Repaired:  with the early stop only on an exactly zero remainder       *)
(*              (/repo commit aa2d8c5) the printed value is the correctly   *)
(*              rounded expansion and the automatic output round-trips.     *)
(*   Original:  with the "very close to zero" stop (< 10 word units) the    *)
(*              same statement is REFUTED (e.g. U0F8 103/256 -> "0.4").     *)
(***************************************************************************)
EXTENDS FmtAlg, TLC
VARIABLE lay
Init == lay \in {<<s, 8, f>> : s \in {0, 1}, f \in 0..8}
Next == UNCHANGED lay
Vals(L) == ZToInt(MinV(L))..ZToInt(MaxV(L))
Precs == {-1} \cup (0..9)

\* drop trailing zero digits (what round_and_trim does when no precision is given)
RECURSIVE Trim(_, _)
Trim(D, nd) == IF nd > 0 /\ ZIsZero(ZMod(D, ZI(10))) THEN Trim(ZFloorDiv(D, ZI(10)), nd - 1) ELSE <<D, nd>>

ValueOk(a, L, p, near) ==
  LET cd  == CodedDec(ZI(a), L, p, near)
      mag == ZAbs(ZI(a))
      f   == LF(L)
  IN IF p >= 0
     THEN cd.nd <= p /\ ZEq(ZMul(cd.D, ZPow(ZI(10), p - cd.nd)), RNEDiv(ZMul(mag, ZPow(ZI(10), p)), ZPow2(f)))
     ELSE LET t == Trim(cd.D, cd.nd) IN
          /\ ZEq(t[1], RNEDiv(ZMul(mag, ZPow(ZI(10), t[2])), ZPow2(f)))
          /\ ZEq(RNEDiv(ZShl(t[1], f), ZPow(ZI(10), t[2])), mag)

Repaired == \A a \in Vals(lay), p \in Precs : ValueOk(a, lay, p, FALSE)
Original == \A a \in Vals(lay), p \in Precs : ValueOk(a, lay, p, TRUE)
=============================================================================
