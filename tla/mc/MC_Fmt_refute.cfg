INIT Init
NEXT Next
INVARIANT Original
CHECK_DEADLOCK FALSE
