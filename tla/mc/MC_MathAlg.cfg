CONSTANTS
  Layouts <- MCLayouts
  Fns = {"sqrt", "log2", "ln", "exp", "powi"}
INIT Init
NEXT Next
INVARIANT Prop
CHECK_DEADLOCK FALSE
