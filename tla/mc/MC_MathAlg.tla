------------------------------ MODULE MC_MathAlg ---------------------------
(***************************************************************************)
(* The transcribed algorithms of src/transcendental.rs (tla/alg/MathAlg,    *)
(* whose fidelity to the code is measured by the AF trace check) against    *)
(* the acceptance rules of C12 / C13 / C14 / C15 / C17 for EVERY operand of *)
(* small layouts -- a question about the design that sampling the real      *)
(* 32..128-bit types cannot answer.  The small layouts keep the shape the    *)
(* module assumes of a supported type (at least 4 integer bits); their      *)
(* fractional bit count is below the 23 of the I9F23 constants, so the       *)
(* constants E and LOG2_E are truncated to the layout (MAConstIn).           *)
(* Number domain "big" (the reference values need the 200-bit arithmetic).  *)
(***************************************************************************)
EXTENDS MathAlg, SemMath, TLC
CONSTANTS Layouts, Fns
VARIABLES lay, fn
MCLayouts == {<<1, 10, 5>>, <<1, 12, 7>>, <<0, 10, 6>>, <<1, 12, 3>>}
RefuteLayouts == {<<1, 12, 3>>}
Init == lay \in Layouts /\ fn \in Fns /\ (LS(lay) \/ fn = "sqrt")      \* only sqrt accepts unsigned types
Next == UNCHANGED <<lay, fn>>

\* an operand / result as the trace encoding of the big domain (|v| < 2^15)
J(v) == IF v = 0 THEN <<0>> ELSE <<IF v < 0 THEN 1 ELSE 0, IF v < 0 THEN -v ELSE v>>
Ev(f, x, a, n) == [k |-> "math", fn |-> f, S |-> lay, D |-> lay, x |-> J(x), n |-> n,
                   r |-> IF a.k = "ok" THEN <<0, J(ZToInt(a.v))>> ELSE <<1>>, it |-> a.it]
Vals == ZToInt(MinV(lay))..ZToInt(MaxV(lay))

Holds(f, x, a, n) ==
  LET e == Ev(f, x, a, n) IN
  /\ a.k # "undef"                                    \* no plain operator overflows on a supported shape
  /\ TotalOk(e)                                       \* C12
  /\ WorkOk(e)                                        \* C17
  /\ CASE f = "sqrt" -> SqrtOk(e)                     \* C13
       [] f = "log2" -> Log2Ok(e)                     \* C14
       [] f = "ln"   -> LnOk(e)
       [] f = "exp"  -> ExpOk(e)                      \* C15
       [] f = "powi" -> PowiOk(e)
       [] f = "pow"  -> PowOk(e)

HoldsY(f, x, y, a) ==
  LET e == [Ev(f, x, a, 0) EXCEPT !.n = 0] @@ [y |-> J(y)] IN
  /\ a.k # "undef" /\ TotalOk(e) /\ WorkOk(e) /\ PowOk(e)
Bad ==
  CASE fn = "sqrt" -> {x \in Vals : ~Holds("sqrt", x, Sqrt(ZI(x), lay), 0)}
    [] fn = "log2" -> {x \in Vals : ~Holds("log2", x, Log2(ZI(x), lay), 0)}
    [] fn = "ln"   -> {x \in Vals : ~Holds("ln", x, Ln(ZI(x), lay), 0)}
    [] fn = "exp"  -> {x \in Vals : ~Holds("exp", x, Exp(ZI(x), lay), 0)}
    [] fn = "exp_orig" -> {x \in Vals : ~Holds("exp", x, ExpOrig(ZI(x), lay), 0)}
    \* exponents -2.5, -1, -0.5, 0.5, 1.5, 2, 3 (in units of the layout)
    [] fn = "pow"  -> {x \in Vals : \E h \in {-5, -2, -1, 1, 3, 4, 6} :
                          LET y == (h * ZToInt(MAOne(lay))) \div 2 IN ~HoldsY("pow", x, y, Pow(ZI(x), ZI(y), lay))}
    [] fn = "powi" -> {x \in Vals : \E n \in {0, 1, 2, 3, 5, 8, 13} : ~Holds("powi", x, Powi(ZI(x), n, lay), n)}
Prop == IF Bad = {} THEN TRUE ELSE PrintT(<<"BAD", lay, fn, Bad>>) /\ FALSE
=============================================================================
