CONSTANTS
  Layouts <- MCLayouts
  Fns = {"sqrt"}
INIT Init
NEXT Next
INVARIANT Prop
CHECK_DEADLOCK FALSE
