CONSTANTS
  Layouts <- MCLayouts
  Fns = {"log2", "ln"}
INIT Init
NEXT Next
INVARIANT Prop
CHECK_DEADLOCK FALSE
