CONSTANTS
  Layouts <- MCLayouts
  Fns = {"exp", "powi"}
INIT Init
NEXT Next
INVARIANT Prop
CHECK_DEADLOCK FALSE
