CONSTANTS
  Layouts <- MCLayouts
  Fns = {"pow"}
INIT Init
NEXT Next
INVARIANT Prop
CHECK_DEADLOCK FALSE
