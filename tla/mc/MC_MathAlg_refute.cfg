CONSTANTS
  Layouts <- RefuteLayouts
  Fns = {"exp_orig"}
INIT Init
NEXT Next
INVARIANT Prop
CHECK_DEADLOCK FALSE
