CONSTANTS
  MaxLen = 4
INIT Init
NEXT Next
INVARIANT TokeniserConforms
CHECK_DEADLOCK FALSE
