------------------------------- MODULE MC_Parse ----------------------------
(***************************************************************************)
(* A (tokeniser as coded) against M (the grammar of SemText) for EVERY      *)
(* string up to MaxLen over a 10-symbol alphabet, in all four radices:      *)
(* same accept / reject decision, same sign, same digits once zeros are     *)
(* trimmed.  One initial state per (radix, length).                         *)
(***************************************************************************)
EXTENDS ParseAlg, TLC
CONSTANTS MaxLen
VARIABLES rx, n
Alphabet == {43, 45, 46, 48, 49, 55, 57, 97, 120, 32}
Init == rx \in {2, 8, 10, 16} /\ n \in 0..MaxLen
Next == UNCHANGED <<rx, n>>
Agree(s) ==
  LET a == ParseBounds(s, rx)  t == Tok(s, rx) IN
  /\ a.ok = t.ok
  /\ (a.ok => /\ a.neg = t.neg
              /\ a.int = TrimL(t.int)
              /\ a.frac = TrimR(t.frac))
TokeniserConforms == \A s \in [1..n -> Alphabet] : Agree(s)
=============================================================================
