CONSTANTS
  MaxLen = 5
INIT Init
NEXT Next
INVARIANT TokeniserConforms
CHECK_DEADLOCK FALSE
