CONSTANTS
  Widths = {2, 3, 4, 5, 6, 8}
INIT Init
NEXT Next
INVARIANT RoundConforms
CHECK_DEADLOCK FALSE
