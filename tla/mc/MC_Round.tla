------------------------------- MODULE MC_Round ----------------------------
(***************************************************************************)
(* A (rounding methods as coded, masks and special cases for 0 / 1 integer  *)
(* bits) against M (exact roundings of Sem.tla) for EVERY value of every    *)
(* layout of the configured widths.                                         *)
(***************************************************************************)
EXTENDS RoundAlg, TLC
CONSTANTS Widths
VARIABLE lay
Init == lay \in {<<s, w, f>> : s \in {0, 1}, w \in Widths, f \in 0..8} /\ lay[3] <= lay[2]
Next == UNCHANGED lay
Vals(L) == ZToInt(MinV(L))..ZToInt(MaxV(L))
MForm(op, a, L) == LET R == ExactUn(op, a, LF(L)).R IN <<Wrap(R, L), ~Fits(R, L)>>
RoundConforms ==
  \A a \in Vals(lay) :
     /\ ACeil(a, lay)  = MForm("ceil", a, lay)
     /\ AFloor(a, lay) = MForm("floor", a, lay)
     /\ ARound(a, lay) = MForm("round", a, lay)
     /\ ARte(a, lay)   = MForm("round_ties_to_even", a, lay)
     /\ ARtz(a, lay)   = ExactUn("round_to_zero", a, LF(lay)).R
     /\ (LI(lay) >= 1 => /\ AInt(a, lay) = ExactUn("int", a, LF(lay)).R
                         /\ AFracPat(a, lay) = ExactUn("frac", a, LF(lay)).R)
=============================================================================
