CONSTANTS
  Widths = {7, 9, 10, 12}
INIT Init
NEXT Next
INVARIANT RoundConforms
CHECK_DEADLOCK FALSE
