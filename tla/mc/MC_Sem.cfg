CONSTANTS
  Widths = {2, 3, 4, 5, 6}
INIT Init
NEXT Next
INVARIANT PolicyLaws
INVARIANT MulDivLaws
INVARIANT RemLaws
INVARIANT RoundLaws
INVARIANT CmpConvLaws
CHECK_DEADLOCK FALSE
