-------------------------------- MODULE MC_Sem -----------------------------
(***************************************************************************)
(* Layer M checked against first principles: for EVERY operand of EVERY     *)
(* layout of the configured widths (both signs, every f in 0..w, including  *)
(* 0 and 1 integer bits) the definitions of tla/sem satisfy the             *)
(* characterisations the property texts state.  This validates the oracle   *)
(* itself; it does not look at the code.  One initial state per layout,     *)
(* the invariants quantify over all operands.                               *)
(***************************************************************************)
EXTENDS Sem, SemConv, TLC

CONSTANTS Widths
VARIABLE lay
Init == lay \in {<<s, w, f>> : s \in {0, 1}, w \in Widths, f \in 0..8} /\ lay[3] <= lay[2]
Next == UNCHANGED lay

Vals(L) == ZToInt(MinV(L))..ZToInt(MaxV(L))
P(k) == ZToInt(ZPow2(k))
Abs(x) == IF x < 0 THEN -x ELSE x
Sgn(x) == IF x < 0 THEN -1 ELSE IF x > 0 THEN 1 ELSE 0

\* C02: the policies partition on Fits and agree with modular arithmetic
PolicyLaws ==
  LET L == lay  w == LW(L)  M == P(w) IN
  \A R \in (-3 * M)..(3 * M) :
     /\ Fits(Wrap(R, L), L)
     /\ (Wrap(R, L) - R) % M = 0
     /\ (Fits(R, L) <=> Wrap(R, L) = R)
     /\ Fits(Sat(R, L), L)
     /\ (Fits(R, L) => Sat(R, L) = R)
     /\ (~Fits(R, L) => Sat(R, L) = (IF R < 0 THEN MinV(L) ELSE MaxV(L)))

\* C01: product rounded toward minus infinity, quotient rounded toward zero
MulDivLaws ==
  LET L == lay  f == LF(L) IN
  \A a \in Vals(L), b \in Vals(L) :
     /\ LET R == ExactBin("mul", a, b, f).R IN R * P(f) <= a * b /\ a * b < (R + 1) * P(f)
     /\ (b # 0 => LET R == ExactBin("div", a, b, f).R IN
                  /\ Abs(R) * Abs(b) <= Abs(a) * P(f) /\ Abs(a) * P(f) < (Abs(R) + 1) * Abs(b)
                  /\ (R # 0 => Sgn(R) = Sgn(a) * Sgn(b)))
     /\ (b = 0 => ExactBin("div", a, b, f).zd)

\* C07: a = q b + r with the right sign / range
RemLaws ==
  LET L == lay  f == LF(L) IN
  \A a \in Vals(L), b \in Vals(L) \ {0} :
     /\ LET r == ExactBin("rem", a, b, f).R IN
        /\ Abs(r) < Abs(b) /\ (r # 0 => Sgn(r) = Sgn(a)) /\ (a - r) % Abs(b) = 0
     /\ LET r == ExactBin("rem_euclid", a, b, f).R
            q == ExactBin("div_euclid", a, b, f).R IN
        /\ 0 <= r /\ r < Abs(b)
        /\ q % P(f) = 0                                  \* q is an integer
        /\ (q \div P(f)) * b + r = a
     \* an integer divisor n is the divisor n * 2^f
     /\ (Fits(b * P(f), L) =>
           /\ ExactBinI("rem_euclid_int", a, b, f).R = ExactBin("rem_euclid", a, b * P(f), f).R
           /\ ExactBinI("div_euclid_int", a, b, f).R = ExactBin("div_euclid", a, b * P(f), f).R
           /\ ExactBinI("rem_int", a, b, f).R = ExactBin("rem", a, b * P(f), f).R)

\* C06: the five roundings and int/frac
RoundLaws ==
  LET L == lay  f == LF(L)  one == P(f) IN
  \A a \in Vals(L) :
     /\ LET k == FloorK(a, f) IN k * one <= a /\ a < (k + 1) * one
     /\ LET k == CeilK(a, f)  IN (k - 1) * one < a /\ a <= k * one
     /\ LET k == TruncK(a, f) IN Abs(k) * one <= Abs(a) /\ Abs(a) < (Abs(k) + 1) * one /\ (k # 0 => Sgn(k) = Sgn(a))
     /\ LET k == RoundAwayK(a, f) IN
        /\ 2 * Abs(k * one - a) <= one
        /\ (2 * Abs(k * one - a) = one => Abs(k) * one > Abs(a))            \* ties away from zero
     /\ LET k == RoundEvenK(a, f) IN
        /\ 2 * Abs(k * one - a) <= one
        /\ (2 * Abs(k * one - a) = one /\ f > 0 => k % 2 = 0)               \* ties to even
     /\ ExactUn("int", a, f).R + ExactUn("frac", a, f).R = a
     /\ 0 <= ExactUn("frac", a, f).R /\ ExactUn("frac", a, f).R < one
     /\ (LI(L) >= 1 => Fits(ExactUn("int", a, f).R, L) /\ Fits(ExactUn("frac", a, f).R, L))

\* C03 / C04: comparison and conversion between this layout and every layout of width 3 or 4
Others == {<<s, w, f>> \in {0, 1} \X {3, 4} \X (0..4) : TRUE}
CmpConvLaws ==
  LET L == lay IN
  \A O \in {o \in Others : o[3] <= o[2]} :
    \A a \in Vals(L), b \in Vals(O) :
       /\ CmpVal(a, LF(L), b, LF(O)) = Sgn(a * P(LF(O)) - b * P(LF(L)))
       /\ CmpVal(b, LF(O), a, LF(L)) = -CmpVal(a, LF(L), b, LF(O))
       /\ LET R == ConvR(a, LF(L), LF(O)) IN
          /\ R * P(LF(L)) <= a * P(LF(O)) /\ a * P(LF(O)) < (R + 1) * P(LF(L))     \* floor
          /\ (Lossless(a, LF(L), LF(O)) <=> R * P(LF(L)) = a * P(LF(O)))
=============================================================================
