CONSTANTS
  Widths = {7, 8}
INIT Init
NEXT Next
INVARIANT PolicyLaws
INVARIANT MulDivLaws
INVARIANT RemLaws
INVARIANT RoundLaws
INVARIANT CmpConvLaws
CHECK_DEADLOCK FALSE
