INIT Init
NEXT Next
INVARIANT Prop
CHECK_DEADLOCK FALSE
