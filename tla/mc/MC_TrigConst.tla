---------------------------- MODULE MC_TrigConst ----------------------------
(***************************************************************************)
(* Arithmetic side of the C16 design argument (TLC, number domain "big",    *)
(* 200-bit reference arithmetic of SemMath): the integer tables used by the *)
(* Apalache lemmas TrigReduce / CordicZ (tla/apa/TrigTables.tla) are the    *)
(* constants the transcription tla/alg/MathAlg.tla works with, and their     *)
(* distance from the real numbers they stand for keeps the angle error of    *)
(* sin / cos for |x| <= 200 below 2^-17:                                    *)
(*   - TWO_PI, PI, FRAC_PI_2 are the truncations of 2 pi, pi, pi/2;          *)
(*   - T23[i] is ARCTAN_ANGLES[i] truncated to 23 bits, and ARCTAN_ANGLES[i] *)
(*     is atan(2^-i) to within 2^-53 (the table was produced in double precision: its     *)
(*     entries are off by 2^-54 .. 2^-77);                                       *)
(*   - reduction (<= 32 periods) + mirror (2 * FRAC_PI_2 for pi) + CORDIC    *)
(*     residual (CordicZ: 16 ulp) + 24 table truncations  <  2^-17;          *)
(*   - the gain constant is prod 1/sqrt(1 + 4^-i) to within 2^-32 (measured: 2^-33).           *)
(* The remaining part of the 2^-16 budget covers the rounding of the 24     *)
(* shift-and-add steps on x and y, which is measured (C16 trace validation), *)
(* not proved.                                                              *)
(***************************************************************************)
EXTENDS MathAlg, SemMath, TLC
VARIABLE u
Init == u = 0
Next == UNCHANGED u
Up(n) == ZShl(ZI(n), QP - 23)                        \* an I9F23 integer as a Q number
\* atan(2^-i) as a Q number: i = 0 is pi/4; otherwise the alternating series in 2^-i
QAtanPow2(i) == IF i = 0 THEN ZFloorShr(QPi, 2)
                ELSE LET RECURSIVE S(_, _, _)
                         S(j, pw, acc) == IF ZIsZero(pw) THEN acc
                                          ELSE S(j + 1, ZFloorShr(pw, 2 * i),
                                                 IF j % 2 = 0 THEN ZAdd(acc, QDivI(pw, 2 * j + 1)) ELSE ZSub(acc, QDivI(pw, 2 * j + 1)))
                     IN S(0, ZFloorShr(QOne, i), Z0)
TruncOf(c23, q) == LET d == ZSub(q, Up(c23)) IN ZSign(d) >= 0 /\ ZLt(d, Up(1))          \* c23 = floor(q * 2^23)
ConstsOk ==          \* (MathAlg takes the three constants from the same module TrigTables)
  /\ TruncOf(TWOPI23, ZShl(QPi, 1)) /\ TruncOf(PI23, QPi) /\ TruncOf(HPI23, ZFloorShr(QPi, 1))
TableOk ==
  \A i \in 0..23 :
    /\ ZEq(ZI(T23[i + 1]), ZFloorShr(ZJ(ATAN128[i + 1]), 105))
    /\ Within(ZShl(ZJ(ATAN128[i + 1]), QP - 128), QAtanPow2(i), ZPow2(QP - 53))
\* angle error of sin for |x| <= 200, in Q units: 32 periods, the mirror, the CORDIC residual, 24 truncated table entries
AngleBudget ==
  LET period == ZMul(ZI(32), ZSub(ZShl(QPi, 1), Up(TWOPI23)))
      mirror == ZAbs(ZSub(QPi, Up(2 * HPI23)))
      resid  == Up(16)
      table  == Up(24)
  IN ZLt(ZAdd(ZAdd(period, mirror), ZAdd(resid, table)), ZPow2(QP - 17))
\* CORDIC gain after 24 rotations
GainOk ==
  LET RECURSIVE G(_, _)
      G(i, acc) == IF i >= 24 THEN acc ELSE G(i + 1, QDiv(acc, QSqrt(ZAdd(QOne, ZFloorShr(QOne, 2 * i)))))
  IN Within(ZShl(ZJ(K128), QP - 128), G(0, QOne), ZPow2(QP - 32))
Prop == ConstsOk /\ TableOk /\ AngleBudget /\ GainOk
=============================================================================
