CONSTANTS
  NReg = 2
  MaxSteps = 3
  Layouts <- McLayouts
  ShiftAmts <- McShifts
  UseShadow = TRUE
INIT Init
NEXT Next
VIEW View
INVARIANT TypeOK
INVARIANT RingHom
INVARIANT OnlyZeroDiv
CHECK_DEADLOCK FALSE
