------------------------------ MODULE MC_WrapVM ----------------------------
(* Exhaustive exploration of the Wrapping<F> register machine at small widths. *)
EXTENDS WrapVM
McLayouts == {<<1, 3, 0>>, <<1, 3, 1>>, <<1, 3, 3>>, <<0, 3, 0>>, <<0, 3, 2>>, <<0, 3, 3>>, <<1, 4, 2>>, <<0, 4, 3>>, <<1, 4, 4>>}
McShifts  == -5..9
\* the program text is history: not part of the state that matters
View == <<lay, reg, shadow, steps>>
=============================================================================
