-------------------------------- MODULE Sem --------------------------------
(***************************************************************************)
(* Layer M, core: layouts, the four overflow policies, and the exact        *)
(* result R of every arithmetic / rounding operation, defined on the raw    *)
(* bits read as integers (value = bits / 2^f).  Written against the         *)
(* abstract number domain Num (dom_int: native integers, 8-bit layouts and  *)
(* small-width design models; dom_big: BigInt, real widths).                *)
(*                                                                          *)
(* A layout is <<s, w, f>> (s = 1 signed, w = width, f = fractional bits),  *)
(* exactly as logged by the harness.                                        *)
(***************************************************************************)
EXTENDS Num

LS(L) == L[1] = 1
LW(L) == L[2]
LF(L) == L[3]
LI(L) == L[2] - L[3]                       \* integer bits (sign bit included)

MinV(L)    == IF LS(L) THEN ZNeg(ZPow2(LW(L) - 1)) ELSE Z0
MaxV(L)    == ZSub(ZPow2(IF LS(L) THEN LW(L) - 1 ELSE LW(L)), ZI(1))
Fits(R, L) == ZLe(MinV(L), R) /\ ZLe(R, MaxV(L))
Wrap(R, L) == ZWrap(R, LS(L), LW(L))
Sat(R, L)  == IF ZLt(R, MinV(L)) THEN MinV(L) ELSE IF ZLt(MaxV(L), R) THEN MaxV(L) ELSE R

(***************************************************************************)
(* An exact result is [zd |-> zero divisor?, R |-> exact integer result in  *)
(* units of the destination's ulp].                                         *)
(***************************************************************************)
Exact(R) == [zd |-> FALSE, R |-> R]
ZeroDiv  == [zd |-> TRUE, R |-> Z0]

\* Euclidean remainder / quotient of integers, b # 0:  0 <= r < |b|, a = q*b + r
ERem(a, b) == ZMod(a, ZAbs(b))
EQuo(a, b) == ZTruncDiv(ZSub(a, ERem(a, b)), b)          \* exact division

ExactBin(op, a, b, f) ==
  CASE op = "add" -> Exact(ZAdd(a, b))
    [] op = "sub" -> Exact(ZSub(a, b))
    [] op = "mul" -> Exact(ZFloorShr(ZMul(a, b), f))                       \* floor(a*b / 2^f)
    [] op = "div" -> IF ZIsZero(b) THEN ZeroDiv ELSE Exact(ZTruncDiv(ZShl(a, f), b))
    [] op = "rem" -> IF ZIsZero(b) THEN ZeroDiv ELSE Exact(ZTruncRem(a, b))
    [] op = "rem_euclid" -> IF ZIsZero(b) THEN ZeroDiv ELSE Exact(ERem(a, b))
    [] op = "div_euclid" -> IF ZIsZero(b) THEN ZeroDiv ELSE Exact(ZShl(EQuo(a, b), f))

\* right operand is a primitive integer n (value n, i.e. n * 2^f in ulps)
ExactBinI(op, a, n, f) ==
  CASE op = "mul_int" -> Exact(ZMul(a, n))
    [] op = "div_int" -> IF ZIsZero(n) THEN ZeroDiv ELSE Exact(ZTruncDiv(a, n))
    [] op = "rem_int" -> IF ZIsZero(n) THEN ZeroDiv ELSE Exact(ZTruncRem(a, ZShl(n, f)))
    [] op = "rem_euclid_int" -> IF ZIsZero(n) THEN ZeroDiv ELSE Exact(ERem(a, ZShl(n, f)))
    [] op = "div_euclid_int" -> IF ZIsZero(n) THEN ZeroDiv ELSE Exact(ZShl(EQuo(a, ZShl(n, f)), f))

\* integer-valued roundings of a / 2^f, as integers k
FloorK(a, f) == ZFloorShr(a, f)
CeilK(a, f)  == ZNeg(ZFloorShr(ZNeg(a), f))
TruncK(a, f) == IF ZSign(a) < 0 THEN CeilK(a, f) ELSE FloorK(a, f)
RoundAwayK(a, f) ==                                  \* ties away from zero
  IF f = 0 THEN a
  ELSE LET m == ZFloorShr(ZAdd(ZAbs(a), ZPow2(f - 1)), f) IN IF ZSign(a) < 0 THEN ZNeg(m) ELSE m
RoundEvenK(a, f) ==                                  \* ties to even
  IF f = 0 THEN a
  ELSE LET q  == ZFloorShr(a, f)
           r2 == ZShl(ZSub(a, ZShl(q, f)), 1)         \* 2 * remainder, 0 <= r2 < 2^(f+1)
           c  == ZCmp(r2, ZPow2(f))
           odd == ZBitAbs(q, 0) = 1
       IN IF c < 0 THEN q ELSE IF c > 0 THEN ZAdd(q, ZI(1)) ELSE IF odd THEN ZAdd(q, ZI(1)) ELSE q

ExactUn(op, a, f) ==
  CASE op = "neg"   -> Exact(ZNeg(a))
    [] op = "abs"   -> Exact(ZAbs(a))
    [] op = "floor" -> Exact(ZShl(FloorK(a, f), f))
    [] op = "ceil"  -> Exact(ZShl(CeilK(a, f), f))
    [] op = "round" -> Exact(ZShl(RoundAwayK(a, f), f))
    [] op = "round_ties_to_even" -> Exact(ZShl(RoundEvenK(a, f), f))
    [] op = "round_to_zero" -> Exact(ZShl(TruncK(a, f), f))
    [] op = "int"   -> Exact(ZShl(FloorK(a, f), f))
    [] op = "frac"  -> Exact(ZSub(a, ZShl(FloorK(a, f), f)))
    [] op = "signum" -> Exact(ZShl(ZI(ZSign(a)), f))

(***************************************************************************)
(* Logged outcomes (JSON): <<kind, number, flag>> with kind 0 = a value     *)
(* (plain value / Some / Ok), 1 = None / Err, 2 = panic, 3 = iteration      *)
(* budget exhausted, 9 = the API does not provide this form.                *)
(***************************************************************************)
IsVal(o)    == o[1] = 0
IsNone(o)   == o[1] = 1
IsPanic(o)  == o[1] = 2
IsBudget(o) == o[1] = 3
Absent(o)   == o[1] = 9
ValIs(o, R) == o[1] = 0 /\ ZEq(ZJ(o[2]), R)

(***************************************************************************)
(* The four policies, judged against one exact result x (property C02).     *)
(* forms = <<plain, checked, saturating, wrapping, overflowing>>.           *)
(* For a zero divisor only the checked form is constrained (None); the      *)
(* other forms are documented to panic and the properties do not say more.  *)
(***************************************************************************)
CheckedOk(o, x, L)  == Absent(o) \/ IF x.zd \/ ~Fits(x.R, L) THEN IsNone(o) ELSE ValIs(o, x.R)
SatOk(o, x, L)      == Absent(o) \/ x.zd \/ ValIs(o, Sat(x.R, L))
WrapOk(o, x, L)     == Absent(o) \/ x.zd \/ ValIs(o, Wrap(x.R, L))
OvfOk(o, x, L)      == Absent(o) \/ x.zd \/
                         (ValIs(o, Wrap(x.R, L)) /\ o[3] = (IF Fits(x.R, L) THEN 0 ELSE 1))
PoliciesOk(o, x, L) == CheckedOk(o[2], x, L) /\ SatOk(o[3], x, L) /\ WrapOk(o[4], x, L) /\ OvfOk(o[5], x, L)

\* the un-prefixed form: the exact result whenever it is representable
PlainOk(o, x, L)    == Absent(o) \/ x.zd \/ ~Fits(x.R, L) \/ ValIs(o, x.R)

\* weak reading used by C01: every form that returns a number returns R when R fits
WhenFitsOk(o, x, L) ==
  x.zd \/ ~Fits(x.R, L) \/
    \A i \in 1..5 : Absent(o[i]) \/ ValIs(o[i], x.R)
=============================================================================
