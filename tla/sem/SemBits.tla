------------------------------ MODULE SemBits ------------------------------
(***************************************************************************)
(* Growth beyond the listed properties: bit operations, shifts in their     *)
(* four forms, bit counting, rotates and powers of two on the plain         *)
(* fixed-point types, defined on the two's complement pattern of the raw    *)
(* bits.                                                                    *)
(***************************************************************************)
EXTENDS Sem, SemConv, SemWrap

\* PopCount, TrailingZeros, RotL: see SemWrap (shared with the Wrapping<F> machine)

\* "sp": every other spelling of the operator (by-reference operands, assigning-by-reference form, the twelve integer
\* types of a shift amount below the width) denotes the same operation as the by-value form o[1]
SpellOk(e) == ("sp" \in DOMAIN e) => \A i \in 1..Len(e.sp) : e.sp[i] = e.o[1]
AcceptBitsOp(e) ==
  LET L == e.L  w == LW(L)  a == ZJ(e.a)  p == Pat(a, L)  o == e.o IN
  CASE e.op = "and" -> \A i \in 1..2 : ValIs(o[i], OfPat(ZBitAnd(p, Pat(ZJ(e.b), L)), L))
    [] e.op = "or"  -> \A i \in 1..2 : ValIs(o[i], OfPat(ZBitOr(p, Pat(ZJ(e.b), L)), L))
    [] e.op = "xor" -> \A i \in 1..2 : ValIs(o[i], OfPat(ZBitXor(p, Pat(ZJ(e.b), L)), L))
    [] e.op = "not" -> ValIs(o[1], Wrap(ZSub(ZNeg(a), ZI(1)), L))
    [] e.op \in {"shl", "shr"} ->
         LET big == ZLe(ZI(w), ZJ(e.n))                                    \* amount >= width
             m   == ZToInt(ZMod(ZJ(e.n), ZI(w)))
             Sh(k) == IF e.op = "shl" THEN Wrap(ZShl(a, k), L) ELSE ZFloorShr(a, k)
         IN /\ (big \/ ValIs(o[1], Sh(m)))                                 \* plain: defined for amounts below the width
            /\ (big \/ ValIs(o[5], Sh(m)))                                 \* assigning form
            /\ (IF big THEN IsNone(o[2]) ELSE ValIs(o[2], Sh(m)))
            /\ ValIs(o[3], Sh(m))                                          \* wrapping: amount modulo the width
            /\ ValIs(o[4], Sh(m)) /\ o[4][3] = (IF big THEN 1 ELSE 0)
    [] e.op = "count" ->
         /\ o[1] = <<0, PopCount(p, w)>> /\ o[2] = <<0, w - PopCount(p, w)>>
         /\ o[3] = <<0, w - ZBitLen(p)>> /\ o[4] = <<0, TrailingZeros(p, 0, w)>>
    [] e.op = "rotate" ->
         LET m == ZToInt(ZMod(ZJ(e.n), ZI(w))) IN
         /\ ValIs(o[1], OfPat(RotL(p, m, w), L))
         /\ ValIs(o[2], OfPat(RotL(p, (w - m) % w, w), L))
    [] e.op = "pow2" ->
         LET np == IF ZIsZero(a) THEN ZI(1) ELSE NextPow2(a) IN
         /\ o[1] = <<0, IF PopCount(p, w) = 1 THEN 1 ELSE 0>>
         /\ (Fits(np, L) => ValIs(o[2], np))
         /\ (IF Fits(np, L) THEN ValIs(o[3], np) ELSE IsNone(o[3]))
AcceptBits(e) == AcceptBitsOp(e) /\ SpellOk(e)
=============================================================================
