------------------------------ MODULE SemConv ------------------------------
(***************************************************************************)
(* Layer M: comparison (C03), fixed<->fixed / fixed<->integer conversion    *)
(* (C04), float conversion (C05) and byte views (C10).                      *)
(* A primitive integer is a layout with f = 0 (isize/usize: w = 64; bool:   *)
(* <<0,1,0>>).  A float is given by its IEEE-754 bit pattern and decoded    *)
(* into class / sign / exact rational mant * 2^ex.                          *)
(***************************************************************************)
EXTENDS Sem


(* ------------------------------ comparison ----------------------------- *)
\* sign of (a / 2^fa - b / 2^fb)
CmpVal(a, fa, b, fb) ==
  LET m == MinI(fa, fb) IN ZCmp(ZShl(a, fb - m), ZShl(b, fa - m))

\* the seven observables <<==, !=, <, <=, >, >=, partial_cmp>> for c in {-1,0,1}, 2 = unordered
B01(p) == IF p THEN 1 ELSE 0
Obs7(c) == << B01(c = 0), B01(c # 0), B01(c = -1), B01(c \in {-1, 0}), B01(c = 1), B01(c \in {0, 1}), c >>
Obs7Ok(o, c) == \A i \in 1..7 : o[i][1] = 0 /\ o[i][2] = Obs7(c)[i]
Flip(c) == IF c = 2 THEN 2 ELSE -c

(* ------------------------------ conversion ----------------------------- *)
\* source bits a with fs fractional bits, in units of the destination's ulp, rounded toward -infinity
ConvR(a, fs, fd) == IF fd >= fs THEN ZShl(a, fd - fs) ELSE ZFloorShr(a, fs - fd)
\* no fractional bit lost
Lossless(a, fs, fd) == fd >= fs \/ ZEq(ZShl(ZFloorShr(a, fs - fd), fs - fd), a)

(* ------------------------------ floats ---------------------------------- *)
\* float formats by total width: 32 and 64 are IEEE binary32 / binary64; 8 (1+4+3) and 10 (1+5+4) are miniature
\* formats of the same parametric shape, used only by the small-width design model tla/mc/MC_Float; 16 is IEEE binary16
\* (half::f16) and 17 stands for bfloat16 (half::bf16, 1+8+7), both behind the crate's "f16" feature (growth check G03)
FPrec(ft)  == CASE ft = 32 -> 24  [] ft = 64 -> 53   [] ft = 8 -> 4  [] ft = 10 -> 5  [] ft = 16 -> 11 [] ft = 17 -> 8
FEBits(ft) == CASE ft = 32 -> 8   [] ft = 64 -> 11   [] ft = 8 -> 4  [] ft = 10 -> 5  [] ft = 16 -> 5  [] ft = 17 -> 8
FBias(ft)  == CASE ft = 32 -> 127 [] ft = 64 -> 1023 [] ft = 8 -> 7  [] ft = 10 -> 15 [] ft = 16 -> 15 [] ft = 17 -> 127
FEMax(ft)  == CASE ft = 32 -> 255 [] ft = 64 -> 2047 [] ft = 8 -> 15 [] ft = 10 -> 31 [] ft = 16 -> 31 [] ft = 17 -> 255

FWidth(ft) == IF ft = 17 THEN 16 ELSE ft          \* total width: the sign is bit FWidth - 1

FDec(bits, ft) ==
  LET p  == FPrec(ft)
      E  == ZToInt(ZUMod2(ZFloorShr(bits, p - 1), FEBits(ft)))
      M  == ZUMod2(bits, p - 1)
  IN [neg  |-> ZToInt(ZFloorShr(bits, FWidth(ft) - 1)) = 1,
      cls  |-> IF E = FEMax(ft) THEN (IF ZIsZero(M) THEN "inf" ELSE "nan") ELSE "fin",
      mant |-> IF E = 0 THEN M ELSE ZAdd(ZPow2(p - 1), M),
      ex   |-> (IF E = 0 THEN 1 ELSE E) - FBias(ft) - (p - 1)]

Signed(neg, m) == IF neg THEN ZNeg(m) ELSE m

\* compare the fixed value a / 2^fa with a decoded float: -1, 0, 1, or 2 for NaN
CmpFloat(a, fa, fl) ==
  IF fl.cls = "nan" THEN 2
  ELSE IF fl.cls = "inf" THEN (IF fl.neg THEN 1 ELSE -1)
  ELSE LET d == fl.ex + fa
           y == Signed(fl.neg, fl.mant)
       IN IF d >= 0 THEN ZCmp(a, ZShl(y, d)) ELSE ZCmp(ZShl(a, -d), y)

\* m / 2^k rounded to nearest, ties to even (m >= 0, k >= 0)
RNEShr(m, k) ==
  IF k = 0 THEN m
  ELSE IF k > ZBitLen(m) + 1 THEN Z0
  ELSE LET q  == ZFloorShr(m, k)
           r2 == ZShl(ZSub(m, ZShl(q, k)), 1)
           c  == ZCmp(r2, ZPow2(k))
       IN IF c > 0 \/ (c = 0 /\ ZBitAbs(q, 0) = 1) THEN ZAdd(q, ZI(1)) ELSE q

\* finite float -> fixed with f fractional bits: nearest, ties to even, as an exact integer of ulps
FloatToFixR(fl, f) ==
  LET d == fl.ex + f
  IN Signed(fl.neg, IF d >= 0 THEN ZShl(fl.mant, d) ELSE RNEShr(fl.mant, -d))

\* fixed bits a with f fractional bits -> IEEE bit pattern, round to nearest even, gradual
\* underflow, overflow to infinity
FixToFloatBits(a, f, ft) ==
  IF ZIsZero(a) THEN Z0
  ELSE LET p    == FPrec(ft)
           bias == FBias(ft)
           mag  == ZAbs(a)
           e    == ZBitLen(mag) - 1 - f                 \* exponent of the leading bit
           eq   == MaxI(e, 1 - bias)                     \* exponent of the binade used for the quantum
           sh   == eq - (p - 1) + f                      \* result mantissa = mag / 2^sh
           M    == IF sh >= 0 THEN RNEShr(mag, sh) ELSE ZShl(mag, -sh)
           body == ZAdd(ZShl(ZI(eq + bias - 1), p - 1), M)   \* carries into the exponent correctly
           infb == ZShl(ZI(FEMax(ft)), p - 1)
           res  == IF ZLe(infb, body) THEN infb ELSE body
       IN IF ZSign(a) < 0 THEN ZAdd(ZPow2(FWidth(ft) - 1), res) ELSE res

(* ------------------------------ bytes ----------------------------------- *)
\* the n little-endian bytes of the unsigned pattern a
LEBytes(a, n) == [i \in 1..n |-> ZToInt(ZUMod2(ZFloorShr(a, 8 * (i - 1)), 8))]
Rev(s) == [i \in 1..Len(s) |-> s[Len(s) + 1 - i]]
=============================================================================
