------------------------------ MODULE SemMath ------------------------------
(***************************************************************************)
(* Layer M for the transcendental module (C12 .. C17).                      *)
(*                                                                          *)
(* Real quantities are "Q numbers": integers scaled by 2^QP with QP = 200   *)
(* fractional bits, at least 80 bits beyond the finest destination          *)
(* resolution that occurs (2^-119).  Every Q operation truncates toward     *)
(* minus infinity and loses at most one unit of 2^-200; the series below    *)
(* are summed until their terms are below 2^-200, and the constants ln 2    *)
(* and pi are computed here from rapidly converging series (2*atanh(1/3),   *)
(* Machin), not imported.  The accumulated error of every reference value   *)
(* is below 2^-160 relative + 2^-160 absolute (Slack); every acceptance     *)
(* test is widened by Slack, so an event is rejected only if it violates    *)
(* the property's bound by more than the bound itself states.               *)
(***************************************************************************)
EXTENDS Sem, SemConv

\* (the reference arithmetic needs the BigInt domain; under dom_int the module only has to parse)
QP      == 200
QOne    == ZPow2(QP)
QMul(a, b) == ZFloorShr(ZMul(a, b), QP)
QDiv(a, b) == ZFloorDiv(ZShl(a, QP), b)                  \* b > 0
QDivI(a, k) == ZFloorDiv(a, ZI(k))                        \* k > 0 native
QOfFix(bits, f) == ZShl(bits, QP - f)
Slack(v) == ZAdd(ZFloorShr(ZAbs(v), 160), ZPow2(QP - 160))

\* sum_{j=0..n} z^(2j+1)/(2j+1) for 0 <= z <= 1/3
QAtanh(z) ==
  LET z2 == QMul(z, z)
      RECURSIVE S(_, _, _)
      S(j, term, acc) == IF j > 68 \/ ZIsZero(term) THEN acc
                         ELSE S(j + 1, QMul(term, z2), ZAdd(acc, QDivI(term, 2 * j + 1)))
  IN S(0, z, Z0)
QLn2 == ZShl(QAtanh(QDivI(QOne, 3)), 1)                                  \* ln 2 = 2 atanh(1/3)

\* atan(1/n) = sum (-1)^j / ((2j+1) n^(2j+1))
QAtanInv(n) ==
  LET RECURSIVE S(_, _, _)
      S(j, pw, acc) == IF ZIsZero(pw) THEN acc
                       ELSE S(j + 1, QDivI(pw, n * n),
                              IF j % 2 = 0 THEN ZAdd(acc, QDivI(pw, 2 * j + 1)) ELSE ZSub(acc, QDivI(pw, 2 * j + 1)))
  IN S(0, QDivI(QOne, n), Z0)
QPi == ZSub(ZShl(QAtanInv(5), 4), ZShl(QAtanInv(239), 2))               \* Machin
ASSUME DomName = "int" \/ ZEq(ZFloorShr(QPi, QP - 20), ZI(3294198))                         \* pi * 2^20 = 3294198.9...
ASSUME DomName = "int" \/ ZEq(ZFloorShr(QLn2, QP - 20), ZI(726817))                         \* ln2 * 2^20 = 726817.4...

\* e^t for a Q number t >= 0: Taylor series of e^(t/1024), then ten squarings
QExpPos(t) ==
  LET s == ZFloorShr(t, 10)
      RECURSIVE T(_, _, _)
      T(k, term, acc) == IF k > 40 \/ ZIsZero(term) THEN acc
                         ELSE LET nt == QDivI(QMul(term, s), k) IN T(k + 1, nt, ZAdd(acc, nt))
      RECURSIVE Sq(_, _)
      Sq(i, v) == IF i = 0 THEN v ELSE Sq(i - 1, QMul(v, v))
  IN Sq(10, T(1, QOne, QOne))
\* |t| is clamped at 400: e^400 > 2^577 exceeds every representable value by far and e^-400 < 2^-577 is below every
\* resolution, so the clamped reference decides the same way (and the series above assumes t / 1024 is small)
QClamp(t) == LET c == ZShl(ZI(400), QP) IN IF ZLt(c, t) THEN c ELSE IF ZLt(t, ZNeg(c)) THEN ZNeg(c) ELSE t
QExp(t) == LET u == QClamp(t) IN IF ZSign(u) >= 0 THEN QExpPos(u) ELSE QDiv(QOne, QExpPos(ZNeg(u)))

\* x = 2^k * m with m in [1, 2):  [k, 2*atanh((m-1)/(m+1))]
QLnParts(x) ==
  LET k == ZBitLen(x) - 1 - QP
      m == IF k >= 0 THEN ZFloorShr(x, k) ELSE ZShl(x, -k)
  IN [k |-> k, lm |-> ZShl(QAtanh(QDiv(ZSub(m, QOne), ZAdd(m, QOne))), 1)]
QLn(x)   == LET p == QLnParts(x) IN ZAdd(ZMul(ZI(p.k), QLn2), p.lm)              \* x > 0
QLog2(x) == LET p == QLnParts(x) IN ZAdd(ZShl(ZI(p.k), QP), QDiv(p.lm, QLn2))

\* sine and cosine of a Q number (any magnitude below 2^20)
QReduce(t) == LET tp == ZShl(QPi, 1)
                  u  == ZSub(t, ZMul(ZFloorDiv(t, tp), tp))                       \* in [0, 2 pi)
              IN IF ZLt(QPi, u) THEN ZSub(u, tp) ELSE u                           \* in (-pi, pi]
QSinCos(t) ==
  LET u  == QReduce(t)
      u2 == QMul(u, u)
      RECURSIVE S(_, _, _)                                                         \* odd terms
      S(j, term, acc) == IF j > 48 \/ ZIsZero(term) THEN acc
                         ELSE LET nt == ZNeg(QDivI(QMul(term, u2), (2 * j) * (2 * j + 1))) IN S(j + 1, nt, ZAdd(acc, nt))
      RECURSIVE C(_, _, _)                                                         \* even terms
      C(j, term, acc) == IF j > 48 \/ ZIsZero(term) THEN acc
                         ELSE LET nt == ZNeg(QDivI(QMul(term, u2), (2 * j - 1) * (2 * j))) IN C(j + 1, nt, ZAdd(acc, nt))
  IN [s |-> S(1, u, u), c |-> C(1, QOne, QOne)]

Within(a, b, tol) == ZLe(ZAbs(ZSub(a, b)), tol)

\* floor(sqrt(v)) of a non-negative integer by Newton's iteration on integers
ZISqrt(v) ==
  LET RECURSIVE N(_)
      N(x) == LET y == ZFloorShr(ZAdd(x, ZFloorDiv(v, x)), 1) IN IF ZLt(y, x) THEN N(y) ELSE x
  IN IF ZIsZero(v) THEN Z0 ELSE N(ZPow2((ZBitLen(v) + 1) \div 2 + 1))
QSqrt(x) == ZISqrt(ZShl(x, QP))                                                   \* sqrt of a Q number

(* growth: the constants of src/consts.rs, each within one unit in the last place of its reference value *)
QInt(n) == ZShl(ZI(n), QP)
ConstRef(name) ==
  LET tau == ZShl(QPi, 1)  ln10 == QLn(QInt(10)) IN
  CASE name = "TAU" -> tau
    [] name = "FRAC_TAU_2" -> QPi              [] name = "FRAC_TAU_3" -> QDivI(tau, 3)
    [] name = "FRAC_TAU_4" -> QDivI(tau, 4)    [] name = "FRAC_TAU_6" -> QDivI(tau, 6)
    [] name = "FRAC_TAU_8" -> QDivI(tau, 8)    [] name = "FRAC_TAU_12" -> QDivI(tau, 12)
    [] name = "FRAC_1_TAU" -> QDiv(QOne, tau)  [] name = "FRAC_2_TAU" -> QDiv(QInt(2), tau)
    [] name = "FRAC_4_TAU" -> QDiv(QInt(4), tau)
    [] name = "PI" -> QPi
    [] name = "FRAC_PI_2" -> QDivI(QPi, 2)     [] name = "FRAC_PI_3" -> QDivI(QPi, 3)
    [] name = "FRAC_PI_4" -> QDivI(QPi, 4)     [] name = "FRAC_PI_6" -> QDivI(QPi, 6)
    [] name = "FRAC_PI_8" -> QDivI(QPi, 8)
    [] name = "FRAC_1_PI" -> QDiv(QOne, QPi)   [] name = "FRAC_2_PI" -> QDiv(QInt(2), QPi)
    [] name = "FRAC_2_SQRT_PI" -> QDiv(QInt(2), QSqrt(QPi))
    [] name = "SQRT_2" -> QSqrt(QInt(2))       [] name = "FRAC_1_SQRT_2" -> QDiv(QOne, QSqrt(QInt(2)))
    [] name = "E" -> QExp(QOne)
    [] name = "LOG2_10" -> QDiv(ln10, QLn2)    [] name = "LOG2_E" -> QDiv(QOne, QLn2)
    [] name = "LOG10_2" -> QDiv(QLn2, ln10)    [] name = "LOG10_E" -> QDiv(QOne, ln10)
    [] name = "LN_2" -> QLn2                   [] name = "LN_10" -> ln10
AcceptConst(e) ==
  LET r == ConstRef(e.name) IN Within(QOfFix(ZJ(e.a), LF(e.L)), r, ZAdd(ZPow2(QP - LF(e.L)), Slack(r)))

(* ------------------------------ per-function acceptance ----------------- *)
MOk(e)     == e.r[1] = 0
MErr(e)    == e.r[1] = 1
MRes(e)    == ZJ(e.r[2])                        \* result bits (when MOk)
FS(e)      == LF(e.S)
FD(e)      == LF(e.D)
UlpQ(e)    == ZPow2(QP - FD(e))                 \* one unit in the last place of D, as a Q number
XQ(e)      == QOfFix(ZJ(e.x), FS(e))
RQ(e)      == QOfFix(MRes(e), FD(e))
XinD(e)    == ZShl(ZJ(e.x), FD(e) - FS(e))     \* the operand converted to D (From is exact)
\* D::from_num(1).checked_div(x) overflows (the reciprocal is not representable in D)
RecipOverflows(e) == ~Fits(ZTruncDiv(ZPow2(2 * FD(e)), XinD(e)), e.D)

\* C13
SqrtOk(e) ==
  LET x == ZJ(e.x)  r == MRes(e)
      X == ZShl(x, 2 * FD(e) - FS(e))            \* r^2 should be about X
      lo == IF ZLt(r, ZI(4)) THEN Z0 ELSE ZSub(r, ZI(4))
      hi == ZAdd(r, ZI(4))
  IN IF MOk(e)
     THEN /\ ZSign(x) >= 0 /\ ZSign(r) >= 0
          /\ ZLe(ZMul(lo, lo), X) /\ ZLe(X, ZMul(hi, hi))
          /\ (ZIsZero(x) => ZIsZero(r))
          /\ (ZEq(x, ZPow2(FS(e))) => ZEq(r, ZPow2(FD(e))))
     ELSE MErr(e) /\ (ZSign(x) < 0 \/ (ZSign(x) > 0 /\ ZLt(x, ZPow2(FS(e))) /\ RecipOverflows(e)))

\* C14
IsPow2(x) == ZSign(x) > 0 /\ ZEq(x, ZPow2(ZBitLen(x) - 1))
LogErrAllowed(e) == ZSign(ZJ(e.x)) <= 0 \/ (ZLt(ZJ(e.x), ZPow2(FS(e))) /\ RecipOverflows(e))
Log2Ok(e) ==
  LET x == ZJ(e.x) IN
  IF MOk(e)
  THEN /\ ZSign(x) > 0
       /\ LET L == QLog2(XQ(e)) IN Within(RQ(e), L, ZAdd(ZShl(UlpQ(e), 3), Slack(L)))
       /\ (IsPow2(x) => ZEq(MRes(e), ZShl(ZI(ZBitLen(x) - 1 - FS(e)), FD(e))))
       /\ (ZLe(x, ZPow2(FS(e))) => ZSign(MRes(e)) <= 0)
       /\ (ZLe(ZPow2(FS(e)), x) => ZSign(MRes(e)) >= 0)
  ELSE MErr(e) /\ LogErrAllowed(e)
LnOk(e) ==
  LET x == ZJ(e.x) IN
  IF MOk(e)
  THEN /\ ZSign(x) > 0
       /\ LET L == QLn(XQ(e)) IN
          Within(RQ(e), L, ZAdd(ZAdd(ZFloorShr(ZAbs(L), 23), ZShl(UlpQ(e), 3)), Slack(L)))
  ELSE MErr(e) /\ LogErrAllowed(e)

\* C15
ExpOk(e) ==
  MOk(e) => LET E == QExp(XQ(e)) IN
            Within(RQ(e), E, ZAdd(ZAdd(ZFloorShr(E, 20), ZShl(UlpQ(e), 6)), Slack(E)))
\* relative error C15 allows for pow: 2^-18 + |y ln x| 2^-22 + 16 |y| 2^-F
PowRel(e, yq, yl) == ZAdd(ZAdd(ZPow2(QP - 18), ZFloorShr(ZAbs(yl), 22)), ZShl(ZFloorShr(ZAbs(yq), FD(e)), 4))
PowOk(e) ==
  LET x == ZJ(e.x)  y == ZJ(e.y)  one == ZPow2(FS(e)) IN
  IF ZIsZero(x) THEN MOk(e) /\ ZIsZero(MRes(e))
  ELSE IF ZIsZero(y) THEN MOk(e) /\ ZEq(MRes(e), ZPow2(FD(e)))
  ELSE IF ZEq(y, one) THEN MOk(e) /\ ZEq(MRes(e), XinD(e))
  ELSE IF ZSign(x) < 0 \/ ~MOk(e) THEN TRUE
  ELSE LET yq == QOfFix(y, FS(e))
           yl == QMul(yq, QLn(XQ(e)))                                    \* y ln x
           V  == QExp(yl)
       IN Within(RQ(e), V, ZAdd(ZAdd(QMul(V, PowRel(e, yq, yl)), ZShl(UlpQ(e), 6)), Slack(V)))
\* Named deviation pow_ln_resolution (known finding, C15).  pow computes exp(y * ln x) with ln x held in D, i.e. with an
\* absolute error of up to 8 units in the last place (C14).  The bound of C15 propagates that error to first order
\* (16 |y| 2^-F relative); the exact propagation is the factor e^(+-8 |y| 2^-F), which exceeds the first-order term once
\* 8 |y| 2^-F > 1.25.  An event that PowOk rejects is explained by this deviation only if |y| >= 2^(F-3) (outside the
\* range where the first-order bound covers the exact one) and r lies within the ExpOk tolerance of
\* [e^(y ln x - |y| d), e^(y ln x + |y| d)] with d = 9 ulp + 2^-23 |ln x| (8 ulp and 2^-23 relative from C14, one ulp
\* for the truncated product).
PowLnResolution(e) ==
  LET x == ZJ(e.x)  y == ZJ(e.y)  one == ZPow2(FS(e)) IN
  /\ ZSign(x) > 0 /\ ~ZIsZero(y) /\ ~ZEq(y, one) /\ MOk(e)
  /\ LET yq  == QOfFix(y, FS(e))
         ay  == ZAbs(yq)
         lnx == QLn(XQ(e))
         d   == ZAdd(ZMul(ZI(9), UlpQ(e)), ZFloorShr(ZAbs(lnx), 23))
         yl  == QMul(yq, lnx)
         w   == QMul(ay, d)
         lo  == QExp(ZSub(yl, w))
         hi  == QExp(ZAdd(yl, w))
         tol(V) == ZAdd(ZAdd(ZFloorShr(V, 20), ZShl(UlpQ(e), 6)), Slack(V))
     IN /\ ZLe(ZPow2(QP + FD(e) - 3), ay)
        /\ ZLe(ZSub(lo, tol(lo)), RQ(e))
        /\ ZLe(RQ(e), ZAdd(hi, tol(hi)))
PowiOk(e) ==
  LET x == ZJ(e.x)  n == e.n  fs == FS(e)  fd == FD(e) IN
  IF ZIsZero(x) THEN MOk(e) /\ ZIsZero(MRes(e))
  ELSE IF n = 0 THEN MOk(e) /\ ZEq(MRes(e), ZPow2(fd))
  ELSE IF n = 1 THEN MOk(e) /\ ZEq(MRes(e), XinD(e))
  ELSE IF n > 1 THEN
       (MOk(e) /\ n * ZBitLen(x) <= 9000) =>
           \* | r * 2^(fs n) - x^n * 2^fd | <= (n + 1) * 2^fs * max(2^fs, |x|)^(n - 1) * 2^... (all in units 2^-(fd + fs n))
           LET big == ZMax(ZPow2(fs), ZAbs(x)) IN
           ZLe(ZAbs(ZSub(ZShl(MRes(e), fs * n), ZShl(ZPow(x, n), fd))),
               ZMul(ZI(n + 1), ZShl(ZPow(big, n - 1), fs)))
  ELSE \* n < 0: the truncated reciprocal of powi(x, |n|), when that is Ok (field rp)
       IF "rp" \in DOMAIN e /\ e.rp[1] = 0
       THEN LET p == ZJ(e.rp[2]) IN
            IF ZIsZero(p) \/ ~Fits(ZTruncDiv(ZPow2(2 * fd), p), e.D) THEN MErr(e)
            ELSE MOk(e) /\ ZEq(MRes(e), ZTruncDiv(ZPow2(2 * fd), p))
       \* no recorded powi(x, |n|) (n = i32::MIN has no positive counterpart): judged only for |x| = 1, where x^n = +-1 and
       \* the two clauses together allow (|n| + 2) units in the last place
       ELSE IF MOk(e) /\ ZEq(ZAbs(x), ZPow2(fs))
            THEN LET v == IF n % 2 = 0 \/ ZSign(x) > 0 THEN ZPow2(fd) ELSE ZNeg(ZPow2(fd)) IN
                 ZLe(ZAbs(ZSub(MRes(e), v)), ZAdd(IF n < -2147483647 THEN ZPow2(31) ELSE ZAbs(ZI(n)), ZI(2)))
            ELSE TRUE

\* C16   (domain: |x| <= 200 for sin/cos, |x| <= 100 and |tan x| <= 64 for tan)
AbsLe(e, k) == ZLe(ZAbs(ZJ(e.x)), ZShl(ZI(k), FS(e)))
TanInDomain(e, sc) == AbsLe(e, 100) /\ ZLe(ZAdd(ZAbs(sc.s), ZPow2(QP - 100)), ZShl(ZAbs(sc.c), 6))
SinOk(e) == AbsLe(e, 200) =>
  /\ MOk(e)
  /\ LET sc == QSinCos(XQ(e))  v == IF e.fn = "sin" THEN sc.s ELSE sc.c IN
     /\ Within(RQ(e), v, ZAdd(ZPow2(QP - 16), ZPow2(QP - 100)))
     /\ ZLe(ZAbs(RQ(e)), ZAdd(QOne, ZPow2(QP - 16)))
TanOk(e) ==
  LET sc == QSinCos(XQ(e)) IN
  TanInDomain(e, sc) =>
    /\ MOk(e)
    \* |r - s/c| <= 2^-14 (1 + tan^2)   <=>   |r c^2 - s c| <= 2^-14   (s^2 + c^2 = 1)
    /\ Within(QMul(RQ(e), QMul(sc.c, sc.c)), QMul(sc.s, sc.c), ZAdd(ZPow2(QP - 14), ZPow2(QP - 90)))

\* C12
IsIntegerValued(y, f) == ZEq(ZShl(ZFloorShr(y, f), f), y)
\* the reference value V (a Q number) lies clearly outside the destination's range: V (1 - 2^-18) > max + 1 ulp
\* beyond the maximum by more than 2^-18 V + 64 ulp (at least the error C15 allows the computed result)
ClearlyTooBig(V, e) == ZLt(ZAdd(ZAdd(QOfFix(ZAdd(MaxV(e.D), ZI(1)), FD(e)), ZFloorShr(V, 18)), ZShl(UlpQ(e), 6)), V)
\* "results that do not fit yield Err": an Ok whose true result is clearly out of range is a violation
FitsOrErr(e) ==
  ~MOk(e) \/
  CASE e.fn = "exp" -> ~ClearlyTooBig(QExp(XQ(e)), e)
    [] e.fn = "pow" -> ZSign(ZJ(e.x)) <= 0 \/ ZIsZero(ZJ(e.y))
                       \/ LET yq == QOfFix(ZJ(e.y), FS(e))
                              yl == QMul(yq, QLn(XQ(e)))
                              V  == QExp(yl)
                          \* beyond the maximum by more than the error C15 allows the computed power
                          IN ~ZLt(ZAdd(ZAdd(QOfFix(ZAdd(MaxV(e.D), ZI(1)), FD(e)), ZFloorShr(V, 18)), QMul(V, PowRel(e, yq, yl))), V)
    [] e.fn = "powi" -> e.n <= 1 \/ e.n * ZBitLen(ZJ(e.x)) > 9000
                        \* |x^n| beyond the maximum by more than the error C15 allows the computed power
                        \* (units 2^-(fd + fs n), as in PowiOk)
                        \/ LET big == ZMax(ZPow2(FS(e)), ZAbs(ZJ(e.x))) IN
                           ~ZLt(ZAdd(ZShl(ZAdd(MaxV(e.D), ZI(2)), FS(e) * e.n), ZMul(ZI(e.n + 1), ZShl(ZPow(big, e.n - 1), FS(e)))),
                                ZShl(ZAbs(ZPow(ZJ(e.x), e.n)), FD(e)))
    [] OTHER -> TRUE
TotalOk(e) ==
  CASE e.fn \in {"sqrt", "log2", "ln", "exp", "pow", "powi"} ->
         /\ e.r[1] \in {0, 1}
         /\ (e.fn = "sqrt" /\ ZSign(ZJ(e.x)) < 0 => MErr(e))
         /\ (e.fn \in {"log2", "ln"} /\ ZSign(ZJ(e.x)) <= 0 => MErr(e))
         /\ (e.fn = "pow" /\ ZSign(ZJ(e.x)) < 0 /\ ~IsIntegerValued(ZJ(e.y), FS(e)) => MErr(e))
         /\ FitsOrErr(e)
    [] e.fn \in {"sin", "cos"} -> AbsLe(e, 200) => MOk(e)
    [] e.fn = "tan" -> MOk(e) \/ ~AbsLe(e, 100) \/ ~TanInDomain(e, QSinCos(XQ(e)))

\* C17
WorkBound(e) == 4 * MaxI(LW(e.S), LW(e.D)) + 64
WorkOk(e) == e.fn = "powi" \/ (e.r[1] # 3 /\ e.it <= WorkBound(e))

AcceptMath(e, P) ==
  CASE P = "C12" -> TotalOk(e)
    [] P = "C13" -> (e.fn = "sqrt" => SqrtOk(e))
    [] P = "C14" -> (e.fn = "log2" => Log2Ok(e)) /\ (e.fn = "ln" => LnOk(e))
    [] P = "C15" -> (e.fn = "exp" => ExpOk(e)) /\ (e.fn = "pow" => PowOk(e)) /\ (e.fn = "powi" => PowiOk(e))
    [] P = "C16" -> (e.fn \in {"sin", "cos"} => SinOk(e)) /\ (e.fn = "tan" => TanOk(e))
    [] P = "C17" -> WorkOk(e)
=============================================================================
