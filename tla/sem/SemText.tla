------------------------------ MODULE SemText ------------------------------
(***************************************************************************)
(* Layer M for parsing (C08) and formatting (C09).  Strings are sequences   *)
(* of byte values.                                                          *)
(*   grammar:  [+-]? digit* ( '.' digit* )?   with at least one digit       *)
(*   value:    the exact rational of the literal; result = nearest          *)
(*             representable value, ties to even (on the magnitude)         *)
(***************************************************************************)
EXTENDS Sem, SemConv, FiniteSets, SequencesExt

DigitVal(b, rx) ==
  IF b >= 48 /\ b <= 57 THEN (IF b - 48 < rx THEN b - 48 ELSE -1)
  ELSE IF rx = 16 /\ b >= 97 /\ b <= 102 THEN b - 87
  ELSE IF rx = 16 /\ b >= 65 /\ b <= 70 THEN b - 55
  ELSE -1

\* tokeniser: [ok, neg, signed, int, frac] with int / frac sequences of digit values
Tok(s, rx) ==
  LET n       == Len(s)
      signed  == n >= 1 /\ s[1] \in {43, 45}
      body    == IF signed THEN SubSeq(s, 2, n) ELSE s
      m       == Len(body)
      pts     == {i \in 1..m : body[i] = 46}
      charsOk == \A i \in 1..m : body[i] = 46 \/ DigitVal(body[i], rx) >= 0
      pt      == IF pts = {} THEN m + 1 ELSE CHOOSE i \in pts : \A j \in pts : i <= j
      int     == [i \in 1..(pt - 1) |-> DigitVal(body[i], rx)]
      frac    == [i \in 1..(m - pt) |-> DigitVal(body[pt + i], rx)]
  IN [ok |-> charsOk /\ Cardinality(pts) <= 1 /\ (pt - 1) + MaxI(m - pt, 0) >= 1,
      neg |-> n >= 1 /\ s[1] = 45, signed |-> signed, point |-> pts # {},
      int |-> int, frac |-> IF m - pt >= 1 THEN frac ELSE <<>>]

\* drop trailing zeros (fraction digits) / leading zeros (integer digits)
RECURSIVE TrimR(_)
TrimR(ds) == IF ds # <<>> /\ ds[Len(ds)] = 0 THEN TrimR(SubSeq(ds, 1, Len(ds) - 1)) ELSE ds
RECURSIVE TrimL(_)
TrimL(ds) == IF ds # <<>> /\ ds[1] = 0 THEN TrimL(Tail(ds)) ELSE ds

\* integer denoted by a digit sequence, Horner's rule
DigitsToZ(ds, rx) == FoldLeft(LAMBDA acc, d : ZAdd(ZMul(acc, ZI(rx)), ZI(d)), Z0, ds)

\* num / den rounded to nearest, ties to even   (num >= 0, den > 0)
RNEDiv(num, den) ==
  LET q == ZFloorDiv(num, den)
      r2 == ZShl(ZSub(num, ZMul(q, den)), 1)
      c == ZCmp(r2, den)
  IN IF c > 0 \/ (c = 0 /\ ZBitAbs(q, 0) = 1) THEN ZAdd(q, ZI(1)) ELSE q

\* exact result of parsing the token t into a layout with f fractional bits
ParseR(t, rx, f) ==
  LET fr == TrimR(t.frac)
      D  == DigitsToZ(TrimL(t.int) \o fr, rx)
  IN Signed(t.neg, RNEDiv(ZShl(D, f), ZPow(ZI(rx), Len(fr))))

(* ------------------------------ formatting ------------------------------ *)
KindRx(kind) == CASE kind \in {"d", "g"} -> 10 [] kind = "b" -> 2 [] kind = "o" -> 8 [] kind \in {"x", "X"} -> 16
Prefix(kind) == CASE kind \in {"d", "g"} -> <<>> [] kind = "b" -> <<48, 98>> [] kind = "o" -> <<48, 111>>
                  [] kind \in {"x", "X"} -> <<48, 120>>
Rep(b, n) == [i \in 1..n |-> b]

\* the unflagged body: digits are the correctly rounded value at the number of digits shown
BodyInfo(base, kind) ==
  LET s    == base
      neg  == Len(s) >= 1 /\ s[1] = 45
      body == IF neg THEN Tail(s) ELSE s
      rx   == KindRx(kind)
      t    == Tok(body, rx)
  IN [neg |-> neg, body |-> body, t |-> t,
      shape |-> /\ t.ok /\ ~t.signed
                /\ Len(t.int) >= 1 /\ (Len(t.int) = 1 \/ t.int[1] # 0)          \* no padding zeros
                /\ (t.point <=> Len(t.frac) >= 1)                                  \* no trailing point
                /\ (kind = "x" => \A i \in 1..Len(body) : ~(body[i] >= 65 /\ body[i] <= 70))
                /\ (kind = "X" => \A i \in 1..Len(body) : ~(body[i] >= 97 /\ body[i] <= 102))]

BodyOk(bi, a, f, kind, p) ==
  LET rx  == KindRx(kind)
      d   == Len(bi.t.frac)
      Db  == DigitsToZ(bi.t.int \o bi.t.frac, rx)
      mag == ZAbs(a)
  IN /\ bi.shape
     /\ (IF ZSign(a) >= 0 THEN ~bi.neg ELSE (bi.neg \/ ZIsZero(Db)))
     /\ IF p >= 0
        THEN d = p /\ ZEq(Db, RNEDiv(ZMul(mag, ZPow(ZI(rx), p)), ZPow2(f)))
        ELSE IF rx = 10
             THEN /\ ZEq(Db, RNEDiv(ZMul(mag, ZPow(ZI(10), d)), ZPow2(f)))       \* correctly rounded at d digits
                  /\ ZEq(RNEDiv(ZShl(Db, f), ZPow(ZI(10), d)), mag)              \* and parses back to the value
             ELSE ZEq(ZShl(Db, f), ZMul(mag, ZPow(ZI(rx), d)))                    \* exact expansion

\* flags affect only padding and prefixes.   v = <<plus, alt, zero, fill, align, width, out>>
VariantOk(v, bi, kind) ==
  LET sign == IF bi.neg THEN <<45>> ELSE IF v[1] = 1 THEN <<43>> ELSE <<>>
      pre  == IF v[2] = 1 THEN Prefix(kind) ELSE <<>>
      nat  == sign \o pre \o bi.body
      w    == v[6]
      pad  == w - Len(nat)
      fc   == IF v[4] = 0 THEN 32 ELSE v[4]
      out  == v[7][2]
  IN /\ v[7][1] = 0
     /\ IF w < 0 \/ pad <= 0 THEN out = nat
        ELSE IF v[3] = 1 THEN out = sign \o pre \o Rep(48, pad) \o bi.body
        ELSE CASE v[5] = 1 -> out = nat \o Rep(fc, pad)
               [] v[5] = 3 -> out = Rep(fc, pad) \o nat
               [] v[5] = 2 -> out = Rep(fc, pad \div 2) \o nat \o Rep(fc, pad - pad \div 2)
               [] v[5] = 0 -> \E k \in 0..pad : out = Rep(fc, k) \o nat \o Rep(fc, pad - k)
=============================================================================
