------------------------------ MODULE SemWrap ------------------------------
(***************************************************************************)
(* Layer M for Wrapping<F> (C18): a register machine.  Four registers hold  *)
(* values of one layout; every operation yields the exact result of the     *)
(* corresponding operation reduced modulo 2^w.                              *)
(***************************************************************************)
EXTENDS Sem, SemConv, EuclidAlg

Pat(v, L)   == ZUMod2(v, LW(L))                    \* two's complement pattern of a value
OfPat(p, L) == ZWrap(p, LS(L), LW(L))
ShAmt(n, L) == ZToInt(ZMod(n, ZI(LW(L))))          \* shift amount reduced modulo the width

\* smallest power of two >= x (x > 0)
NextPow2(x) == LET k == ZBitLen(x) IN IF ZEq(x, ZPow2(k - 1)) THEN x ELSE ZPow2(k)

RECURSIVE PopCount(_, _)
PopCount(p, k) == IF k = 0 THEN 0 ELSE ZBitAbs(p, k - 1) + PopCount(p, k - 1)          \* ones among the low k bits
RECURSIVE TrailingZeros(_, _, _)
TrailingZeros(p, i, w) == IF i >= w THEN w ELSE IF ZBitAbs(p, i) = 1 THEN i ELSE TrailingZeros(p, i + 1, w)
RotL(p, m, w) == IF m = 0 THEN p ELSE ZUMod2(ZAdd(ZShl(p, m), ZFloorShr(p, w - m)), w)

WBinOps  == {"add", "sub", "mul", "div", "rem", "div_euclid", "rem_euclid"}
WBitOps  == {"and", "or", "xor"}
WIntOps  == {"mul_int", "div_int", "rem_int", "div_euclid_int", "rem_euclid_int"}
WUnOps   == {"neg", "abs", "signum", "ceil", "floor", "round", "round_ties_to_even", "round_to_zero", "int", "frac"}

\* exact (unwrapped) result of a step, as [zd, R], or the marker any = TRUE where the API's result
\* is not pinned down by the property (int/frac of a layout without integer bits)
WExact(e, reg, L) ==
  LET f == LF(L)
      x == IF "a" \in DOMAIN e THEN reg[e.a] ELSE Z0
  IN CASE e.op \in WBinOps -> ExactBin(e.op, x, reg[e.b], f)
       [] e.op \in WIntOps -> ExactBinI(e.op, x, ZJ(e.n), f)
       [] e.op \in WUnOps  -> ExactUn(e.op, x, f)
       [] e.op = "and" -> Exact(OfPat(ZBitAnd(Pat(x, L), Pat(reg[e.b], L)), L))
       [] e.op = "or"  -> Exact(OfPat(ZBitOr(Pat(x, L), Pat(reg[e.b], L)), L))
       [] e.op = "xor" -> Exact(OfPat(ZBitXor(Pat(x, L), Pat(reg[e.b], L)), L))
       [] e.op = "not" -> Exact(ZSub(ZNeg(x), ZI(1)))
       [] e.op = "shl" -> Exact(ZShl(x, ShAmt(ZJ(e.n), L)))
       [] e.op = "shr" -> Exact(ZFloorShr(x, ShAmt(ZJ(e.n), L)))
       [] e.op = "rotl" -> Exact(OfPat(RotL(Pat(x, L), ShAmt(ZJ(e.n), L), LW(L)), L))
       [] e.op = "rotr" -> Exact(OfPat(RotL(Pat(x, L), (LW(L) - ShAmt(ZJ(e.n), L)) % LW(L), LW(L)), L))
       [] e.op = "npot" -> Exact(IF ZIsZero(x) THEN ZI(1)
                                 ELSE IF Fits(NextPow2(x), L) THEN NextPow2(x) ELSE Z0)
       [] e.op = "from_int" -> Exact(ZShl(ZJ(e.n), f))
       [] e.op = "from_fix" -> Exact(ConvR(ZJ(e.sv), LF(e.sl), f))       \* from_num of a bool / another fixed-point value
       [] e.op = "from_float" ->                                  \* a non-finite float panics (marked like a zero divisor)
            LET fl == FDec(ZJ(e.fb), e.ft) IN IF fl.cls = "fin" THEN Exact(FloatToFixR(fl, f)) ELSE ZeroDiv
       [] e.op = "sum" ->
            LET RECURSIVE S(_)
                S(i) == IF i = 0 THEN Z0 ELSE ZAdd(S(i - 1), reg[e.as[i]])
            IN Exact(S(Len(e.as)))
       [] e.op = "product" ->
            LET RECURSIVE Pr(_)
                Pr(i) == IF i = 1 THEN reg[e.as[1]]
                         ELSE Wrap(ZFloorShr(ZMul(Pr(i - 1), reg[e.as[i]]), f), L)
            IN Exact(IF Len(e.as) = 0 THEN ZShl(ZI(1), f) ELSE Pr(Len(e.as)))

\* observers of a register (no state change): bit counting, predicates, layout constants, to_bits, to_num::<Dst> (= the
\* wrapping conversion of the value into the layout e.D; primitive integers are layouts without fractional bits),
\* Display (the text of the wrapper is the text of the wrapped value, which C09 judges)
WObsOk(e, reg, L) ==
  LET x == reg[e.a]  p == Pat(x, L)  w == LW(L)
      IntIs(n) == e.r = <<0, n>>
  IN CASE e.op = "count_ones"     -> IntIs(PopCount(p, w))
       [] e.op = "count_zeros"    -> IntIs(w - PopCount(p, w))
       [] e.op = "leading_zeros"  -> IntIs(w - ZBitLen(p))
       [] e.op = "trailing_zeros" -> IntIs(TrailingZeros(p, 0, w))
       [] e.op = "is_pow2"        -> IntIs(IF PopCount(p, w) = 1 THEN 1 ELSE 0)
       [] e.op = "is_neg"         -> IntIs(IF ZSign(x) < 0 THEN 1 ELSE 0)
       [] e.op = "int_nbits"      -> IntIs(LI(L))
       [] e.op = "frac_nbits"     -> IntIs(LF(L))
       [] e.op = "to_bits"        -> ValIs(e.r, x)
       [] e.op = "to_num"         -> ValIs(e.r, Wrap(ConvR(x, LF(L), LF(e.D)), e.D))
       [] e.op = "display"        -> e.s = e.t
       [] OTHER -> FALSE
\* a load through a constructor: "c" names it and "iv" is the value handed to it
WLoadOk(e, L) ==
  IF "c" \notin DOMAIN e THEN TRUE
  ELSE CASE e.c = "min" -> ZEq(ZJ(e.v), MinV(L))
         [] e.c = "max" -> ZEq(ZJ(e.v), MaxV(L))
         [] e.c \in {"from_bits", "from", "tuple"} -> ZEq(ZJ(e.v), ZJ(e.iv))
         [] OTHER -> FALSE

WUnpinned(e, L) == e.op \in {"int", "frac"} /\ LI(L) = 0

\* verdict of one step given the specification's own register state
WVerdict(e, reg, L) ==
  IF e.k = "wobs" THEN (IF WObsOk(e, reg, L) = TRUE THEN "ok" ELSE "")
  ELSE IF e.k = "wload" THEN (IF WLoadOk(e, L) = TRUE THEN "ok" ELSE "")
  ELSE IF e.k # "w" THEN "ok"
  ELSE IF WUnpinned(e, L) THEN (IF IsPanic(e.r) THEN "" ELSE "ok")
  ELSE LET x == WExact(e, reg, L) IN
       IF x.zd THEN (IF e.op = "from_float" /\ ~IsPanic(e.r) THEN "" ELSE "ok")   \* a zero divisor may panic; a non-finite float must
       ELSE IF ValIs(e.r, Wrap(x.R, L)) THEN "ok"
       ELSE IF e.op \in {"div_euclid", "div_euclid_int"}
               /\ ValIs(e.r, CodedOvf(IF e.op = "div_euclid" THEN "bin" ELSE "bini", reg[e.a],
                                      IF e.op = "div_euclid" THEN reg[e.b] ELSE ZJ(e.n), L)[1])
            THEN "div_euclid_as_coded"
       ELSE ""

\* next register state: the logged value (equal to the expected one when the verdict is "ok")
WRegNext(e, reg) ==
  CASE e.k = "wreset" -> [i \in 1..4 |-> Z0]
    [] e.k = "wload"  -> [reg EXCEPT ![e.d] = ZJ(e.v)]
    [] e.k = "w"      -> IF IsVal(e.r) THEN [reg EXCEPT ![e.d] = ZJ(e.r[2])] ELSE reg
    [] OTHER          -> reg
=============================================================================
