------------------------------ MODULE SemWrap ------------------------------
(***************************************************************************)
(* Layer M for Wrapping<F> (C18): a register machine.  Four registers hold  *)
(* values of one layout; every operation yields the exact result of the     *)
(* corresponding operation reduced modulo 2^w.                              *)
(***************************************************************************)
EXTENDS Sem, SemConv, EuclidAlg

Pat(v, L)   == ZUMod2(v, LW(L))                    \* two's complement pattern of a value
OfPat(p, L) == ZWrap(p, LS(L), LW(L))
ShAmt(n, L) == ZToInt(ZMod(n, ZI(LW(L))))          \* shift amount reduced modulo the width

\* smallest power of two >= x (x > 0)
NextPow2(x) == LET k == ZBitLen(x) IN IF ZEq(x, ZPow2(k - 1)) THEN x ELSE ZPow2(k)

WBinOps  == {"add", "sub", "mul", "div", "rem", "div_euclid", "rem_euclid"}
WBitOps  == {"and", "or", "xor"}
WIntOps  == {"mul_int", "div_int", "rem_int", "div_euclid_int", "rem_euclid_int"}
WUnOps   == {"neg", "abs", "signum", "ceil", "floor", "round", "round_ties_to_even", "round_to_zero", "int", "frac"}

\* exact (unwrapped) result of a step, as [zd, R], or the marker any = TRUE where the API's result
\* is not pinned down by the property (int/frac of a layout without integer bits)
WExact(e, reg, L) ==
  LET f == LF(L)
      x == IF "a" \in DOMAIN e THEN reg[e.a] ELSE Z0
  IN CASE e.op \in WBinOps -> ExactBin(e.op, x, reg[e.b], f)
       [] e.op \in WIntOps -> ExactBinI(e.op, x, ZJ(e.n), f)
       [] e.op \in WUnOps  -> ExactUn(e.op, x, f)
       [] e.op = "and" -> Exact(OfPat(ZBitAnd(Pat(x, L), Pat(reg[e.b], L)), L))
       [] e.op = "or"  -> Exact(OfPat(ZBitOr(Pat(x, L), Pat(reg[e.b], L)), L))
       [] e.op = "xor" -> Exact(OfPat(ZBitXor(Pat(x, L), Pat(reg[e.b], L)), L))
       [] e.op = "not" -> Exact(ZSub(ZNeg(x), ZI(1)))
       [] e.op = "shl" -> Exact(ZShl(x, ShAmt(ZJ(e.n), L)))
       [] e.op = "shr" -> Exact(ZFloorShr(x, ShAmt(ZJ(e.n), L)))
       [] e.op = "npot" -> Exact(IF ZIsZero(x) THEN ZI(1)
                                 ELSE IF Fits(NextPow2(x), L) THEN NextPow2(x) ELSE Z0)
       [] e.op = "from_int" -> Exact(ZShl(ZJ(e.n), f))
       [] e.op = "from_fix" -> Exact(ConvR(ZJ(e.sv), LF(e.sl), f))       \* from_num of a bool / another fixed-point value
       [] e.op = "from_float" ->                                  \* a non-finite float panics (marked like a zero divisor)
            LET fl == FDec(ZJ(e.fb), e.ft) IN IF fl.cls = "fin" THEN Exact(FloatToFixR(fl, f)) ELSE ZeroDiv
       [] e.op = "sum" ->
            LET RECURSIVE S(_)
                S(i) == IF i = 0 THEN Z0 ELSE ZAdd(S(i - 1), reg[e.as[i]])
            IN Exact(S(Len(e.as)))
       [] e.op = "product" ->
            LET RECURSIVE Pr(_)
                Pr(i) == IF i = 1 THEN reg[e.as[1]]
                         ELSE Wrap(ZFloorShr(ZMul(Pr(i - 1), reg[e.as[i]]), f), L)
            IN Exact(IF Len(e.as) = 0 THEN ZShl(ZI(1), f) ELSE Pr(Len(e.as)))

WUnpinned(e, L) == e.op \in {"int", "frac"} /\ LI(L) = 0

\* verdict of one step given the specification's own register state
WVerdict(e, reg, L) ==
  IF e.k # "w" THEN "ok"
  ELSE IF WUnpinned(e, L) THEN (IF IsPanic(e.r) THEN "" ELSE "ok")
  ELSE LET x == WExact(e, reg, L) IN
       IF x.zd THEN (IF e.op = "from_float" /\ ~IsPanic(e.r) THEN "" ELSE "ok")   \* a zero divisor may panic; a non-finite float must
       ELSE IF ValIs(e.r, Wrap(x.R, L)) THEN "ok"
       ELSE IF e.op \in {"div_euclid", "div_euclid_int"}
               /\ ValIs(e.r, CodedOvf(IF e.op = "div_euclid" THEN "bin" ELSE "bini", reg[e.a],
                                      IF e.op = "div_euclid" THEN reg[e.b] ELSE ZJ(e.n), L)[1])
            THEN "div_euclid_as_coded"
       ELSE ""

\* next register state: the logged value (equal to the expected one when the verdict is "ok")
WRegNext(e, reg) ==
  CASE e.k = "wreset" -> [i \in 1..4 |-> Z0]
    [] e.k = "wload"  -> [reg EXCEPT ![e.d] = ZJ(e.v)]
    [] e.k = "w"      -> IF IsVal(e.r) THEN [reg EXCEPT ![e.d] = ZJ(e.r[2])] ELSE reg
    [] OTHER          -> reg
=============================================================================
