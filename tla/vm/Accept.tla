------------------------------- MODULE Accept ------------------------------
(***************************************************************************)
(* Which logged events are steps of the specification, per property.        *)
(* e is one JSON event of the harness; P the property id.                   *)
(***************************************************************************)
EXTENDS Sem, EuclidAlg

ArithExact(e) ==
  LET f == LF(e.L) IN
  CASE e.k = "bin"  -> ExactBin(e.op, ZJ(e.a), ZJ(e.b), f)
    [] e.k = "bini" -> ExactBinI(e.op, ZJ(e.a), ZJ(e.n), f)
    [] e.k = "un"   -> ExactUn(e.op, ZJ(e.a), f)

NoPolicyPanic(o) == \A i \in 2..5 : ~IsPanic(o[i])

AcceptArith(e, P) ==
  LET x == ArithExact(e)  L == e.L  o == e.o IN
  CASE P = "C01" -> WhenFitsOk(o, x, L)
    [] P = "C02" -> PoliciesOk(o, x, L) /\ (x.zd \/ NoPolicyPanic(o))
    [] P = "C06" -> IF e.op \in {"int", "frac"} /\ LI(L) = 0 THEN TRUE
                    ELSE PlainOk(o[1], x, L) /\ PoliciesOk(o, x, L)
    [] P = "C07" -> PlainOk(o[1], x, L) /\ PoliciesOk(o, x, L) /\ (x.zd \/ NoPolicyPanic(o))

Accept(e, P) ==
  CASE e.k \in {"bin", "bini", "un"} -> AcceptArith(e, P)

(***************************************************************************)
(* Named deviations (known findings).  Deviation(e, P) is consulted only    *)
(* for an event that layer M rejects; it names the recorded-defective       *)
(* design that reproduces the logged outcome bit for bit, or "" if none     *)
(* does -- in which case the event is a violation.                          *)
(***************************************************************************)
Deviation(e, P) ==
  IF P = "C07" /\ e.k \in {"bin", "bini"} /\ e.op \in {"div_euclid", "div_euclid_int"}
     /\ ~ZIsZero(IF e.k = "bin" THEN ZJ(e.b) ELSE ZJ(e.n))
     /\ CodedFormsMatch(e.k, e.o, ZJ(e.a), IF e.k = "bin" THEN ZJ(e.b) ELSE ZJ(e.n), e.L, e.pr)
  THEN "div_euclid_as_coded"
  ELSE ""
=============================================================================
