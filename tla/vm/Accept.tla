------------------------------- MODULE Accept ------------------------------
(***************************************************************************)
(* Which logged events are steps of the specification, per property.        *)
(* e is one JSON event of the harness; P the property id.                   *)
(***************************************************************************)
EXTENDS Sem, SemConv, SemText, SemMath, SemBits, EuclidAlg, FmtAlg, MathAlg

ArithExact(e) ==
  LET f == LF(e.L) IN
  CASE e.k = "bin"  -> ExactBin(e.op, ZJ(e.a), ZJ(e.b), f)
    [] e.k = "bini" -> ExactBinI(e.op, ZJ(e.a), ZJ(e.n), f)
    [] e.k = "un"   -> ExactUn(e.op, ZJ(e.a), f)

NoPolicyPanic(o) == \A i \in 2..5 : ~IsPanic(o[i])

\* the assigning form of an operator (op=) must give the exact result too whenever it fits
AltOk(e, x, L) == /\ (("alt" \in DOMAIN e) => \A i \in 1..Len(e.alt) : PlainOk(e.alt[i], x, L))
                  \* the same operation on Wrapping<F>: the exact result modulo 2^w, a panic only for a zero divisor
                  /\ (("w" \in DOMAIN e) => WrapOk(e.w, x, L))

AcceptArith(e, P) ==
  LET x == ArithExact(e)  L == e.L  o == e.o IN
  CASE P = "C01" -> WhenFitsOk(o, x, L) /\ AltOk(e, x, L)
    [] P = "C02" -> PoliciesOk(o, x, L) /\ (x.zd \/ NoPolicyPanic(o)) /\ AltOk(e, x, L)
    [] P = "C06" -> IF e.op \in {"int", "frac"} /\ LI(L) = 0 THEN TRUE
                    ELSE PlainOk(o[1], x, L) /\ PoliciesOk(o, x, L) /\ AltOk(e, x, L)
    [] P = "C07" -> PlainOk(o[1], x, L) /\ PoliciesOk(o, x, L) /\ (x.zd \/ NoPolicyPanic(o)) /\ AltOk(e, x, L)

(* ------------------------------ C03 ------------------------------------ *)
HasField(e, f) == f \in DOMAIN e
AcceptCmp(e) ==          \* fixed vs fixed, fixed vs primitive integer (both operand orders when logged)
  LET c == CmpVal(ZJ(e.a), LF(e.A), ZJ(e.b), LF(e.B))
  IN Obs7Ok(e.o, c) /\ (HasField(e, "r") => Obs7Ok(e.r, Flip(c)))
AcceptCmpF(e) ==         \* fixed vs float, both operand orders
  LET c == CmpFloat(ZJ(e.a), LF(e.A), FDec(ZJ(e.fb), e.ft))
  IN Obs7Ok(e.o, c) /\ Obs7Ok(e.r, Flip(c))
AcceptOrd(e) ==          \* Ord / Hash within one type
  LET c == ZCmp(ZJ(e.a), ZJ(e.b))
  IN /\ e.o[1][2] = c
     /\ e.o[2][2] = B01(c = 0)          \* equal hashes iff equal values
     /\ e.o[3][2] = 1                   \* hash of the value = hash of its bits
     /\ e.o[4][2] = 1                   \* max consistent with >=

(* ------------------------------ C04 ------------------------------------ *)
ConvForms(o, x, L) == PlainOk(o[1], x, L) /\ PoliciesOk(o, x, L) /\ (\A i \in 2..5 : ~IsPanic(o[i]))
AcceptConv(e) ==
  LET x == Exact(ConvR(ZJ(e.a), LF(e.A), LF(e.B)))
  IN ConvForms(e.o, x, e.B) /\ ConvForms(e.o2, x, e.B)
AcceptFrom(e) ==         \* From / LossyFrom impls that exist
  LET a == ZJ(e.a)
      R == ConvR(a, LF(e.A), LF(e.B))
  IN /\ Fits(R, e.B)
     /\ (e.tr = "From" => Lossless(a, LF(e.A), LF(e.B)))
     /\ ValIs(e.o[1], R) /\ ValIs(e.o[2], R)

\* impl existence (compile-time probe): an impl of From / LossyFrom between fixed types may exist only where no source
\* value can overflow the destination (checked at the two extremes: the conversion is monotone), and From only where
\* no fractional bit can be lost.  A missing impl is never a violation.
AcceptImpl(e) ==
  e.exists = 1 =>
    /\ Fits(ConvR(MaxV(e.A), LF(e.A), LF(e.B)), e.B)
    /\ Fits(ConvR(MinV(e.A), LF(e.A), LF(e.B)), e.B)
    /\ (e.tr = "From" => LF(e.B) >= LF(e.A))

\* az::StaticCast between fixed types (growth G03): Some is a compile-time decision of the layout pair, so it must carry
\* the converted value and may be given only where no source value can overflow the destination.  None is never a
\* violation (the trait promises nothing then).
AcceptStatic(e) ==
  LET a == ZJ(e.a)  R == ConvR(a, LF(e.A), LF(e.B)) IN
  \/ IsNone(e.o)
  \/ /\ ValIs(e.o, R)
     /\ Fits(ConvR(MaxV(e.A), LF(e.A), LF(e.B)), e.B)
     /\ Fits(ConvR(MinV(e.A), LF(e.A), LF(e.B)), e.B)

\* type aliases of src/types.rs (growth G04): the alias named I<i>F<f> / U<i>F<f> is the signed / unsigned type with
\* f fractional bits and i + f bits in all.  e.name holds the code points of the alias name.
AcceptAlias(e) ==
  LET n   == e.name
      pF  == CHOOSE i \in 2..Len(n) : n[i] = 70                           \* the 'F'
      dec(ds) == FoldLeft(LAMBDA acc, d : 10 * acc + (d - 48), 0, ds)
      ib  == SubSeq(n, 2, pF - 1)
      fb  == SubSeq(n, pF + 1, Len(n))
  IN /\ n[1] \in {73, 85}
     /\ \E i \in 2..Len(n) : n[i] = 70
     /\ ib # <<>> /\ fb # <<>> /\ \A i \in 1..Len(ib) : ib[i] \in 48..57
     /\ \A i \in 1..Len(fb) : fb[i] \in 48..57
     /\ e.L = <<IF n[1] = 73 THEN 1 ELSE 0, dec(ib) + dec(fb), dec(fb)>>
     /\ e.ibits = dec(ib) /\ e.fbits = dec(fb)                             \* INT_NBITS / FRAC_NBITS constants

\* Sum / Product of the plain types (growth G05) fold with the plain operators + and *, which are constrained (weak
\* reading of C01 / C02) only while the exact results fit: if every intermediate result of the left fold fits, both the
\* by-value and the by-reference impl return the exact fold.  The empty product is 1 where 1 is representable.
FoldExact(op, xs, L) ==                       \* <<every intermediate result fits, exact value>>
  LET f  == LF(L)
      xz == [i \in 1..Len(xs) |-> ZJ(xs[i])]
      step(acc, x) == IF ~acc[1] THEN acc
                      ELSE LET r == IF op = "sum" THEN ZAdd(acc[2], x) ELSE ZFloorShr(ZMul(acc[2], x), f)
                           IN <<Fits(r, L), r>>
  IN IF op = "sum" THEN FoldLeft(step, <<TRUE, Z0>>, xz)
     ELSE IF xz = <<>> THEN <<Fits(ZPow2(f), L), ZPow2(f)>>
     ELSE FoldLeft(step, <<TRUE, xz[1]>>, Tail(xz))
AcceptFold(e) ==
  LET r == FoldExact(e.op, e.xs, e.L) IN
  r[1] => ValIs(e.o[1], r[2]) /\ ValIs(e.o[2], r[2])
\* predicates and constants of the plain types (growth G05)
AcceptPred(e) ==
  LET a == ZJ(e.a)  sg == ZSign(a) IN
  /\ (IF LS(e.L) THEN e.o[1] = <<0, B01(sg < 0)>> /\ e.o[2] = <<0, B01(sg > 0)>> ELSE Absent(e.o[1]) /\ Absent(e.o[2]))
  /\ ValIs(e.o[3], MinV(e.L)) /\ ValIs(e.o[4], MaxV(e.L)) /\ ValIs(e.o[5], Z0)
  /\ \A i \in 6..9 : ValIs(e.o[i], a)               \* from_bits(to_bits), from_xx_bytes(to_xx_bytes)

\* Fidelity of the layer-A transcription tla/alg/MathAlg.tla ("property" AF; never a verdict on the code): a recorded call
\* (S = D, or a widening pair) is reproduced by the transcribed algorithm bit for bit and tick for tick, unless the transcription says
\* "undef" (a plain operator of the code overflowed).
\* S # D (widening pairs, D: From<S>): every function converts the operand with D::from first and works in D, so the
\* transcription applies to the converted bits; the only S-typed step that can differ is exp's checked_neg of S::MIN.
MathAlgOf(e) ==
  LET up == LF(e.D) - LF(e.S)
      x  == ZShl(ZJ(e.x), up)
  IN
  CASE e.fn = "sqrt" -> Sqrt(x, e.D)
    [] e.fn = "log2" -> Log2(x, e.D)
    [] e.fn = "ln"   -> Ln(x, e.D)
    [] e.fn = "exp"  -> IF e.S # e.D /\ LS(e.S) /\ ZEq(ZJ(e.x), MinV(e.S)) THEN MAErr(0) ELSE Exp(x, e.D)
    [] e.fn = "powi" -> Powi(x, e.n, e.D)
    [] e.fn = "pow"  -> Pow(x, ZShl(ZJ(e.y), up), e.D)
    [] e.fn = "sin"  -> Sin(x, e.D)
    [] e.fn = "cos"  -> Cos(x, e.D)
    [] e.fn = "tan"  -> Tan(x, e.D)
AcceptFidelity(e) ==
  \/ e.k # "math" \/ LF(e.D) < LF(e.S) \/ e.fn \notin {"sqrt", "log2", "ln", "exp", "pow", "powi", "sin", "cos", "tan"}
  \/ (e.fn = "powi" /\ (e.n > 300 \/ e.n < -300))
  \/ LET a == MathAlgOf(e) IN
     \/ a.k = "undef"
     \/ a.k = "ok" /\ e.r[1] = 0 /\ ZEq(ZJ(e.r[2]), a.v) /\ e.it = a.it
     \/ a.k = "err" /\ e.r[1] = 1 /\ e.it = a.it

(* ------------------------------ C05 ------------------------------------ *)
AcceptF2X(e) ==
  LET fl == FDec(ZJ(e.fb), e.ft)  L == e.B
      Forms(o) ==
        IF fl.cls = "fin"
        THEN LET x == Exact(FloatToFixR(fl, LF(L))) IN PlainOk(o[1], x, L) /\ PoliciesOk(o, x, L)
                                                      /\ (\A i \in 2..5 : ~IsPanic(o[i]))
        ELSE /\ IsPanic(o[1]) /\ IsNone(o[2]) /\ IsPanic(o[4]) /\ IsPanic(o[5])
             /\ (IF fl.cls = "nan" THEN IsPanic(o[3])
                 ELSE ValIs(o[3], IF fl.neg THEN MinV(L) ELSE MaxV(L)))
  IN Forms(e.o) /\ Forms(e.o2)
AcceptX2F(e) ==
  LET b == FixToFloatBits(ZJ(e.a), LF(e.A), e.ft)
  IN /\ \A i \in 1..5 : ValIs(e.o[i], b)
     /\ e.o[5][3] = 0
     /\ (("lossy" \in DOMAIN e) => ValIs(e.lossy, b))
     /\ (("from" \in DOMAIN e) => ValIs(e.from, b))           \* From<fixed> for f32 / f64 (small types): the same value
\* LossyFrom<integer> for f32 / f64: an integer is a fixed-point value without fractional bits
AcceptI2F(e) == ValIs(e.lossy, FixToFloatBits(ZJ(e.a), 0, e.ft))

(* ------------------------------ C10 ------------------------------------ *)
AcceptCodec(e) ==
  LET n == LW(e.A) \div 8
      a == ZJ(e.a)
      le == LEBytes(a, n)
  IN /\ e.enc = le /\ e.intenc = le /\ e.wrapenc = le /\ e.le = le /\ e.ne = le /\ e.be = Rev(le)
     /\ e.size = n /\ e.maxlen = n
     /\ e.nested = <<7>> \o le \o <<9>> /\ e.appended = <<238>> \o le /\ e.optenc = <<1>> \o le
     /\ (("used" \in DOMAIN e) => /\ \A i \in 1..3 : e.used[i] = le            \* using_encoded: value, &value, Box<value>
                                   /\ e.vecenc = <<8>> \o le \o le              \* Vec: compact length 2, then the elements
                                   /\ e.arrenc = le \o le \o le)                \* array: the elements (size_hint is recorded, not judged)
     /\ ValIs(e.decnested, a)
     /\ ValIs(e.dec, a)
     /\ \A i \in 1..n : IsNone(e.decshort[i])
     /\ ~IsPanic(e.declong)
     /\ \A i \in 1..5 : ValIs(e.rt[i], a)
     /\ e.sk = << <<98, 105, 116, 115>> >>                       \* exactly one key, "bits"
     /\ ZEq(ZJ(e.sb), Wrap(a, e.A))                               \* holding the raw integer
     /\ e.wserde = e.serde
     /\ ValIs(e.serde_rt, a) /\ ValIs(e.serde_seq, a)
     \* Wrapping<F> reads back what it wrote; malformed documents (duplicate / unknown / missing field, wrong shape) must not
     \* panic -- whether they are refused is not part of C10 -- and a document with one "bits" and a foreign key, if accepted, is a
     /\ (("wserde_rt" \in DOMAIN e) => /\ ValIs(e.wserde_rt, a)
                                       /\ \A i \in 1..Len(e.serde_bad) : ~IsPanic(e.serde_bad[i]))

(* ------------------------------ C08 ------------------------------------ *)
AcceptParse(e, P) ==
  LET t == Tok(e.s, e.rx)  L == e.L  o == e.o IN
  IF ~t.ok
  THEN IF P = "C18" THEN IsNone(e.w) ELSE (\A i \in 1..4 : IsNone(o[i])) /\ IsNone(e.w)
  ELSE LET R == ParseR(t, e.rx, LF(L)) IN
       IF P = "C18" THEN ValIs(e.w, Wrap(R, L))
       ELSE /\ ValIs(e.w, Wrap(R, L))                                  \* parsing into Wrapping<F> = the wrapping form
            /\ (IF Fits(R, L) THEN ValIs(o[1], R) ELSE IsNone(o[1]))
            /\ ValIs(o[2], Sat(R, L))
            /\ ValIs(o[3], Wrap(R, L))
            /\ ValIs(o[4], Wrap(R, L)) /\ o[4][3] = (IF Fits(R, L) THEN 0 ELSE 1)

(* ------------------------------ C09 ------------------------------------ *)
AcceptFmt(e) ==
  /\ e.base[1] = 0
  /\ LET bi == BodyInfo(e.base[2], e.kind) IN
     /\ BodyOk(bi, ZJ(e.a), LF(e.L), e.kind, e.p)
     /\ \A i \in 1..Len(e.vs) : VariantOk(e.vs[i], bi, e.kind)
     /\ ("back" \in DOMAIN e => ValIs(e.back, ZJ(e.a)))

(* ------------------------------ C11 ------------------------------------ *)
(* A pair event carries the same call recorded in the unchecked (u) and     *)
(* checked (c) build profiles.  Every outcome slot must be identical, or    *)
(* the checked build panics where the documentation reserves a panic: an    *)
(* un-prefixed form whose exact result does not fit, or a zero divisor.     *)
PairSlots(ou, oc, Allowed(_)) ==
  /\ Len(ou) = Len(oc)
  /\ \A i \in 1..Len(ou) : ou[i] = oc[i] \/ (IsPanic(oc[i]) /\ ~IsPanic(ou[i]) /\ Allowed(i))
SameCall(u, c) == [x \in (DOMAIN u) \ {"pr", "o", "o2", "r", "it", "alt", "w"} |-> u[x]] = [x \in (DOMAIN c) \ {"pr", "o", "o2", "r", "it", "alt", "w"} |-> c[x]]
AcceptPair(e) ==
  LET u == e.u  c == e.c IN
  /\ u.k = c.k
  /\ CASE u.k \in {"bin", "bini", "un"} ->
             LET x == ArithExact(u) IN
             /\ SameCall(u, c)
             /\ PairSlots(u.o, c.o, LAMBDA i : i = 1 /\ (x.zd \/ ~Fits(x.R, u.L)
                                                       \/ (u.op \in {"int", "frac"} /\ LI(u.L) = 0)))
             /\ (("alt" \in DOMAIN u) => PairSlots(u.alt, c.alt, LAMBDA i : x.zd \/ ~Fits(x.R, u.L)))
             /\ (("w" \in DOMAIN u) => u.w = c.w)
       [] u.k = "conv" ->
             LET x == Exact(ConvR(ZJ(u.a), LF(u.A), LF(u.B))) IN
             /\ SameCall(u, c)
             /\ PairSlots(u.o, c.o, LAMBDA i : i = 1 /\ ~Fits(x.R, u.B))
             /\ PairSlots(u.o2, c.o2, LAMBDA i : i = 1 /\ ~Fits(x.R, u.B))
       [] u.k = "f2x" ->
             LET fl == FDec(ZJ(u.fb), u.ft)
                 ok(i) == i = 1 /\ fl.cls = "fin" /\ ~Fits(FloatToFixR(fl, LF(u.B)), u.B) IN
             /\ SameCall(u, c)
             /\ PairSlots(u.o, c.o, ok) /\ PairSlots(u.o2, c.o2, ok)
       [] u.k \in {"cmp", "cmpf", "ord", "from", "x2f", "i2f", "codec", "impl"} -> [x \in (DOMAIN u) \ {"pr"} |-> u[x]] = [x \in (DOMAIN c) \ {"pr"} |-> c[x]]
       [] u.k \in {"wreset", "wload", "w", "wobs"} -> [x \in (DOMAIN u) \ {"pr"} |-> u[x]] = [x \in (DOMAIN c) \ {"pr"} |-> c[x]]
       \* parsing and formatting never depend on the profile and never panic
       [] u.k \in {"parse", "fmt"} -> [x \in (DOMAIN u) \ {"pr"} |-> u[x]] = [x \in (DOMAIN c) \ {"pr"} |-> c[x]]
       \* math: the Result-returning functions must agree exactly (value, Err, iteration count); sin / cos / tan
       \* are un-prefixed operations built on plain + - * /, so the checked build may panic where they overflow
       [] u.k = "math" ->
             /\ [x \in (DOMAIN u) \ {"pr", "r", "it", "rp"} |-> u[x]] = [x \in (DOMAIN c) \ {"pr", "r", "it", "rp"} |-> c[x]]
             /\ (u.r = c.r \/ (u.fn \in {"sin", "cos", "tan"} /\ IsPanic(c.r) /\ ~IsPanic(u.r)))
             /\ (u.r = c.r => u.it = c.it)
       [] OTHER -> FALSE

Accept(e, P) ==
  CASE e.k \in {"bin", "bini", "un"} -> AcceptArith(e, P)
    [] e.k = "pair"  -> AcceptPair(e)
    [] e.k = "math"  -> IF P = "AF" THEN AcceptFidelity(e) ELSE AcceptMath(e, P)
    [] e.k = "bits"  -> AcceptBits(e)                       \* growth (G01)
    [] e.k = "const" -> AcceptConst(e)                      \* growth (G02)
    [] e.k = "parse" -> AcceptParse(e, P)
    [] e.k = "fmt"   -> AcceptFmt(e)
    [] e.k = "cmp"   -> AcceptCmp(e)
    [] e.k = "cmpf"  -> AcceptCmpF(e)
    [] e.k = "ord"   -> AcceptOrd(e)
    [] e.k = "conv"  -> AcceptConv(e)
    [] e.k = "from"  -> AcceptFrom(e)
    [] e.k = "impl"  -> AcceptImpl(e)
    [] e.k = "static" -> AcceptStatic(e)
    [] e.k = "alias" -> AcceptAlias(e)
    [] e.k = "fold"  -> AcceptFold(e)
    [] e.k = "pred"  -> AcceptPred(e)
    [] e.k = "f2x"   -> AcceptF2X(e)
    [] e.k = "x2f"   -> AcceptX2F(e)
    [] e.k = "i2f"   -> AcceptI2F(e)
    [] e.k = "codec" -> AcceptCodec(e)

(***************************************************************************)
(* Named deviations (known findings).  Deviation(e, P) is consulted only    *)
(* for an event that layer M rejects; it names the recorded-defective       *)
(* design that reproduces the logged outcome bit for bit, or "" if none     *)
(* does -- in which case the event is a violation.                          *)
(***************************************************************************)
Deviation(e, P) ==
  IF P = "C07" /\ e.k \in {"bin", "bini"} /\ e.op \in {"div_euclid", "div_euclid_int"}
     /\ ~ZIsZero(IF e.k = "bin" THEN ZJ(e.b) ELSE ZJ(e.n))
     /\ CodedFormsMatch(e.k, e.o, ZJ(e.a), IF e.k = "bin" THEN ZJ(e.b) ELSE ZJ(e.n), e.L, e.pr)
  THEN "div_euclid_as_coded"
  ELSE IF P = "C11" /\ e.k = "pair" /\ e.u.k \in {"bin", "bini"} /\ e.u.op \in {"div_euclid", "div_euclid_int"}
          /\ LET u == e.u  c == e.c
                 b == IF u.k = "bin" THEN ZJ(u.b) ELSE ZJ(u.n) IN
             /\ ~ZIsZero(b)
             /\ SameCall(u, c)
             \* the plain form panics with overflow checks exactly where the as-coded design overflows
             /\ PairSlots(u.o, c.o, LAMBDA i : i = 1 /\ CodedPlainPanics(u.k, ZJ(u.a), b, u.L))
  THEN "div_euclid_as_coded"
  ELSE IF P = "C15" /\ e.k = "math" /\ e.fn = "pow" /\ PowLnResolution(e)
  THEN "pow_ln_resolution"
  ELSE ""
=============================================================================
