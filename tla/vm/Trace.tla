------------------------------- MODULE Trace -------------------------------
(***************************************************************************)
(* Trace validation (impl -> spec).  The harness records one event per      *)
(* call of the real library; every event must be a step the specification   *)
(* allows under the property named by the environment variable PROP.        *)
(* A rejected event does not stop validation: it is reported through a      *)
(* Reject step (printed as <<"REJECT", index>>) so that one run reports     *)
(* every offending event, and the postcondition demands that the whole      *)
(* trace was consumed.                                                      *)
(***************************************************************************)
EXTENDS Accept, TLC, Json, IOUtils

Rec  == ndJsonDeserialize(IOEnv.TRACE)
Prop == IOEnv.PROP

VARIABLES l, nrej
vars == <<l, nrej>>

Init == l = 1 /\ nrej = 0

Conform == /\ l <= Len(Rec)
           /\ Accept(Rec[l], Prop)
           /\ l' = l + 1 /\ nrej' = nrej
Reject  == /\ l <= Len(Rec)
           /\ ~Accept(Rec[l], Prop)
           /\ PrintT(<<"REJECT", l, Deviation(Rec[l], Prop)>>)
           /\ l' = l + 1 /\ nrej' = nrej + 1
Next == Conform \/ Reject

Consumed == IF TLCGet("stats").diameter = Len(Rec) + 1
            THEN PrintT(<<"CONSUMED", Len(Rec)>>)
            ELSE PrintT(<<"STUCK", TLCGet("stats").diameter>>) /\ FALSE
=============================================================================
