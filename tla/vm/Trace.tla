------------------------------- MODULE Trace -------------------------------
(***************************************************************************)
(* Trace validation (impl -> spec).  The harness records one event per      *)
(* call of the real library; every event must be a step the specification   *)
(* allows under the property named by the environment variable PROP.        *)
(* A rejected event does not stop validation: it is reported through a      *)
(* Reject step (printed as <<"REJECT", index>>) so that one run reports     *)
(* every offending event, and the postcondition demands that the whole      *)
(* trace was consumed.                                                      *)
(***************************************************************************)
EXTENDS Accept, SemWrap, TLC, Json, IOUtils

Rec  == ndJsonDeserialize(IOEnv.TRACE)
Prop == IOEnv.PROP

VARIABLES l, nrej,
          reg, lay        \* register machine state of Wrapping<F> programs (C18)
vars == <<l, nrej, reg, lay>>

Init == l = 1 /\ nrej = 0 /\ reg = [i \in 1..4 |-> Z0] /\ lay = <<0, 8, 0>>
IsW(e) == e.k \in {"wreset", "wload", "w", "wobs"}

\* Verdict of one event: "ok" (a step of the specification under layer M), the name of the
\* known deviation whose layer-A model reproduces it bit for bit, or "" (a violation).
\* NB: the verdict is computed as a VALUE (Accept(..) = TRUE): inside an action TLC would otherwise
\* treat every disjunction of Accept as a nondeterministic branch and evaluate all disjuncts.
Verdict(e) == IF IsW(e) THEN WVerdict(e, reg, lay)
              ELSE IF Accept(e, Prop) = TRUE THEN "ok" ELSE Deviation(e, Prop)

Step == /\ l <= Len(Rec)
        /\ l' = l + 1
        /\ reg' = (IF IsW(Rec[l]) THEN WRegNext(Rec[l], reg) ELSE reg)
        /\ lay' = (IF Rec[l].k = "wreset" THEN Rec[l].L ELSE lay)
        /\ IF Verdict(Rec[l]) = "ok"
           THEN nrej' = nrej                                         \* Conform
           ELSE /\ PrintT(<<"REJECT", l, Verdict(Rec[l])>>)          \* KnownDeviation / Violation
                /\ nrej' = nrej + 1
Next == Step

Consumed == IF TLCGet("stats").diameter = Len(Rec) + 1
            THEN PrintT(<<"CONSUMED", Len(Rec)>>)
            ELSE PrintT(<<"STUCK", TLCGet("stats").diameter>>) /\ FALSE
=============================================================================
