------------------------------- MODULE WrapVM ------------------------------
(***************************************************************************)
(* The register machine of Wrapping<F> as a closed specification: NReg      *)
(* registers of one layout, every operation of the Wrapping API as an       *)
(* action.  It shares the step semantics (WExact) with the trace            *)
(* specification, so what TLC explores here is exactly what recorded        *)
(* programs are validated against.                                          *)
(*   - model-checked exhaustively at small widths (tla/mc/MC_WrapVM):       *)
(*     every register always holds a representable value, a zero divisor is *)
(*     the only step without a successor value, and for the ring operations *)
(*     (+, -, neg, not, << , * int) wrapping after every step equals        *)
(*     wrapping the exact integer computation once at the end (shadow       *)
(*     registers);                                                          *)
(*   - simulated on the 8-bit layouts to GENERATE programs that the harness *)
(*     replays on the real Wrapping<F> (spec -> impl, tla/mc/Gen_WrapVM).   *)
(***************************************************************************)
EXTENDS SemWrap, TLC

CONSTANTS NReg, MaxSteps, Layouts, ShiftAmts, UseShadow

VARIABLES lay, reg, shadow, steps, prog
wvars == <<lay, reg, shadow, steps, prog>>

Regs    == 1..NReg
Vals(L) == LET lo == ZToInt(MinV(L))  hi == ZToInt(MaxV(L)) IN lo..hi        \* small widths only (native)

RingOps == {"add", "sub", "neg", "not", "shl", "mul_int", "load", "from_int", "sum"}

\* all steps enabled in the current state, as event records of the trace format
Steps(L) ==
       {[k |-> "wload", op |-> "load", d |-> d, v |-> v] : d \in Regs, v \in Vals(L)}
  \cup {[k |-> "w", op |-> op, d |-> d, a |-> a, b |-> b] :
           op \in WBinOps \cup WBitOps, d \in Regs, a \in Regs, b \in Regs}
  \cup {[k |-> "w", op |-> op, d |-> d, a |-> a, n |-> n] : op \in WIntOps, d \in Regs, a \in Regs, n \in Vals(L)}
  \cup {[k |-> "w", op |-> op, d |-> d, a |-> a, n |-> n] : op \in {"shl", "shr"}, d \in Regs, a \in Regs, n \in ShiftAmts}
  \cup {[k |-> "w", op |-> op, d |-> d, a |-> a, n |-> n] : op \in {"rotl", "rotr"}, d \in Regs, a \in Regs, n \in {m \in ShiftAmts : m >= 0}}
  \cup {[k |-> "w", op |-> op, d |-> d, a |-> a] :
           op \in (WUnOps \cup {"not"}) \ (IF LS(L) THEN {} ELSE {"abs", "signum"}), d \in Regs, a \in Regs}
  \cup (IF LS(L) THEN {} ELSE {[k |-> "w", op |-> "npot", d |-> d, a |-> a] : d \in Regs, a \in Regs})
  \cup {[k |-> "w", op |-> op, d |-> d, as |-> <<a, b>>] : op \in {"sum", "product"}, d \in Regs, a \in Regs, b \in Regs}

Defined(e, L) == e.k = "wload" \/ (~WUnpinned(e, L) /\ ~WExact(e, reg, L).zd)
Result(e, L)  == IF e.k = "wload" THEN e.v ELSE Wrap(WExact(e, reg, L).R, L)

\* exact (unwrapped) shadow computation for ring operations; any other operation re-seeds the shadow
ShadowNext(e, L) ==
  IF e.op \in RingOps /\ e.k = "w"
  THEN WExact(e, shadow, L).R
  ELSE Result(e, L)

Init == /\ lay \in Layouts
        /\ reg = [r \in Regs |-> Z0] /\ shadow = [r \in Regs |-> Z0]
        /\ steps = 0 /\ prog = <<>>

Step(e) == /\ steps < MaxSteps
           /\ Defined(e, lay) = TRUE        \* as a value: no action-level branching on its disjunction
           /\ reg' = [reg EXCEPT ![e.d] = Result(e, lay)]
           /\ shadow' = IF UseShadow THEN [shadow EXCEPT ![e.d] = ShadowNext(e, lay)] ELSE shadow
           /\ steps' = steps + 1
           /\ prog' = IF UseShadow THEN prog ELSE Append(prog, e)
           /\ UNCHANGED lay

Next == \E e \in Steps(lay) : Step(e)
Spec == Init /\ [][Next]_wvars

(* ------------------------------ properties ------------------------------ *)
TypeOK      == \A r \in Regs : Fits(reg[r], lay)
\* wrapping after every step = wrapping the exact computation once (ring operations)
RingHom     == UseShadow => \A r \in Regs : ZEq(reg[r], Wrap(shadow[r], lay))
\* a step is undefined only for a zero divisor (or the unpinned int/frac of a layout without integer bits)
OnlyZeroDiv == \A e \in Steps(lay) : Defined(e, lay) \/ WUnpinned(e, lay) \/ WExact(e, reg, lay).zd
=============================================================================
